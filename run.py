#!/venv/bin/python
"""Entry point: run.py <ID> [--tier quick|thorough] [--replay file]"""
import os
import sys
import warnings

os.environ.setdefault('PYTHONHASHSEED', '0')
os.environ.setdefault('NUMBA_DISABLE_PERFORMANCE_WARNINGS', '1')
warnings.filterwarnings('ignore')
import logging  # noqa
logging.disable(logging.CRITICAL)
sys.path.insert(0, os.path.dirname(os.path.abspath(__file__)))
deps = os.path.join(os.path.dirname(os.path.abspath(__file__)), '.deps')
if os.path.isdir(deps):
    sys.path.append(deps)

from vlib.runner import main  # noqa

if __name__ == '__main__':
    sys.exit(main())
