#!/venv/bin/python
"""seed_eval.py <ID> <name> [<srcdir>] : (optionally import deliverables from srcdir into
/verif/seeded/<ID>/<name>/), apply the patch to /repo, run the quick check (and thorough with
--thorough), revert, and record the outcome in meta.json."""
import json, os, shutil, subprocess, sys
pid, name = sys.argv[1], sys.argv[2]
args = [a for a in sys.argv[3:] if not a.startswith('--')]
dst = os.path.join('/verif/seeded', pid, name)
if args:
    src = args[0]
    os.makedirs(dst, exist_ok=True)
    for f in ('patch.diff', 'demo.py', 'meta.json', 'confirm.json'):
        if os.path.exists(os.path.join(src, f)):
            shutil.copy(os.path.join(src, f), os.path.join(dst, f))
patch = os.path.join(dst, 'patch.diff')
assert subprocess.run(['git', '-C', '/repo', 'diff', '--quiet']).returncode == 0, '/repo dirty'
a = subprocess.run(['git', '-C', '/repo', 'apply', patch], capture_output=True, text=True)
if a.returncode:
    print('patch does not apply:', a.stderr); sys.exit(3)
try:
    tier = 'thorough' if '--thorough' in sys.argv else 'quick'
    env = dict(os.environ)
    r = subprocess.run(['/venv/bin/python', '/verif/run.py', pid, '--tier', tier, '--no-shrink'], cwd='/verif',
                       capture_output=True, text=True, env=env)
finally:
    subprocess.run(['git', '-C', '/repo', 'checkout', '--', '.'])
lines = [l for l in r.stdout.splitlines() if l.startswith(('violated clause', 'HARNESS', pid + ' '))]
print('exit', r.returncode)
for l in lines[:8]:
    print('  ', l[:240])
mp = os.path.join(dst, 'meta.json')
meta = json.load(open(mp)) if os.path.exists(mp) else {'property': pid}
meta.setdefault('check_results', {})[tier] = {
    'exit': r.returncode, 'detected': r.returncode == 1,
    'labels': [l.split(' (')[0].replace('violated clause ', '') for l in lines if l.startswith('violated')][:10],
    'cmd': '/venv/bin/python run.py %s --tier %s (VERIF_SEED=%s)' % (pid, tier, os.environ.get('VERIF_SEED', '1'))}
if os.path.exists(os.path.join(dst, 'confirm.json')):
    meta['confirmed'] = json.load(open(os.path.join(dst, 'confirm.json')))
json.dump(meta, open(mp, 'w'), indent=1)
# evidence file was rewritten by a mutated run: restore the committed one
subprocess.run(['git', '-C', '/verif', 'checkout', '--', 'evidence/%s.json' % pid], capture_output=True)
