#!/usr/bin/env python3-vt
"""Regenerate MANIFEST.json from the table below (single source of truth)."""
import json, os, sys
ROOT = os.path.dirname(os.path.dirname(os.path.abspath(__file__)))
sys.path.insert(0, ROOT)

# property -> (technique, level text, level note, design ref)
CHECKS = {}
NOT_APPLICABLE = {}


def load():
    import importlib.util
    spec = importlib.util.spec_from_file_location('mtable', os.path.join(ROOT, 'tools', 'manifest_table.py'))
    m = importlib.util.module_from_spec(spec)
    spec.loader.exec_module(m)
    return m


def main():
    t = load()
    checks = []
    import importlib, ast
    for pid in sorted(t.CHECKS):
        c = dict(t.CHECKS[pid])
        src = open(os.path.join(ROOT, 'vlib', 'props', pid.lower() + '.py')).read()
        if any(isinstance(n, ast.Assign) and getattr(n.targets[0], 'id', None) == 'FUZZ' for n in ast.parse(src).body):
            c['technique'] += '; thorough tier adds a coverage-guided atheris (libFuzzer) campaign over the same generator and oracle, with the pure-Python taurex modules on the path instrumented'
        checks.append({
            'property_id': pid,
            'quick_cmd': '/venv/bin/python run.py %s --tier quick' % pid,
            'thorough_cmd': '/venv/bin/python run.py %s --tier thorough' % pid,
            'evidence_file': '/verif/evidence/%s.json' % pid,
            'replay_cmd_template': '/venv/bin/python run.py %s --replay {path}' % pid,
            'engine': 'hypothesis-collect-then-shrink',
            'level_claimed': {'category': 'exploration', 'text': c['text'],
                              'design_ref': 'DESIGN.md section 3, %s' % pid},
            'level_note': c['note'],
            'technique': c['technique'],
        })
    props = [json.loads(l)['id'] for l in open(os.path.join(ROOT, 'properties.jsonl'))]
    na = []
    for pid in props:
        if pid not in t.CHECKS:
            na.append({'property_id': pid,
                       'reason': t.NOT_APPLICABLE.get(pid, 'check not built yet in this session (planned, see DESIGN.md section 3); not claimed until it runs clean on the unchanged tree')})
    man = {
        'version': 1,
        'setup_cmd': '(/venv/bin/python -c "import hypothesis" 2>/dev/null || /venv/bin/pip install --no-index --find-links /opt/veriftools/wheels hypothesis) && (test -d /verif/.deps/atheris || /venv/bin/pip install -q --no-index --find-links /opt/veriftools/wheels --target /verif/.deps atheris || true)',
        'hooks': {
            'guard': 'UCL_EXOPLANETS_TAUREX3_PUBLIC_VERIF',
            'enable': 'no source hooks: every observation point is a public or module attribute replaced from the harness; taurex is installed editable so checks import /repo working tree directly',
            'baseline_off_cmd': 'cd /repo && /venv/bin/python -m pytest -ra -q -p no:cacheprovider --timeout=900 --continue-on-collection-errors',
            'source_commits': [],
            'add_only': True,
        },
        'engines': [{
            'name': 'hypothesis-collect-then-shrink',
            'path': '/verif/vlib/runner.py',
            'serves_properties': sorted(t.CHECKS),
            'kind_free_text': 'Hypothesis 6.168 generators (seeded by VERIF_SEED, database=None) drive per-property executable oracles (reference models, round trips, differential and metamorphic relations); pass 1 collects violated clause labels over all cases, pass 2 shrinks one case per label into a JSON replay; committed replays are re-run without the library on every run; in the thorough tier properties that declare a FUZZ table also run atheris/libFuzzer campaigns (vlib/fuzz.py) through hypothesis fuzz_one_input with the same oracle inside the target',
        }],
        'checks': checks,
        'not_applicable': na,
        'notes': t.NOTES,
    }
    with open(os.path.join(ROOT, 'MANIFEST.json'), 'w') as f:
        json.dump(man, f, indent=1)
        f.write('\n')
    try:
        import jsonschema
        jsonschema.validate(man, json.load(open('/root/.vp/MANIFEST.schema.json')))
        print('MANIFEST valid; %d checks, %d not_applicable' % (len(checks), len(na)))
    except ImportError:
        print('written (jsonschema not available to validate)')


if __name__ == '__main__':
    main()
