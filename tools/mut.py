#!/venv/bin/python
"""Sensitivity helper: tools/mut.py <ID> <repo-relative-file> <old> <new> [--cases N]
Applies a textual mutation to /repo, runs the quick check, restores the file."""
import subprocess, sys, os
pid, rel, old, new = sys.argv[1:5]
extra = sys.argv[5:]
path = os.path.join('/repo', rel)
src = open(path).read()
if src.count(old) < 1:
    print('MUT: pattern not found'); sys.exit(3)
open(path, 'w').write(src.replace(old, new, 1))
try:
    r = subprocess.run(['/venv/bin/python', '/verif/run.py', pid, '--tier', 'quick', '--no-shrink'] + extra,
                       cwd='/verif', capture_output=True, text=True)
    lines = [l for l in r.stdout.splitlines() if l.startswith(('violated clause', 'HARNESS', pid))]
    print('MUT %s %r -> %r : exit %d' % (rel, old[:40], new[:40], r.returncode))
    with open('/verif/sensitivity.log', 'a') as lf:
        lf.write('%s\t%s\t%r -> %r\texit=%d\t%s\n' % (pid, rel, old, new, r.returncode, (lines[0][:160] if lines else '')))
    for l in lines[:6]:
        print('   ', l[:220])
    if r.returncode not in (0, 1):
        print(r.stdout[-1500:], r.stderr[-1500:])
finally:
    open(path, 'w').write(src)
    subprocess.run(['git', '-C', '/repo', 'diff', '--quiet']) 
