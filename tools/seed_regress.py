#!/venv/bin/python
"""seed_regress.py [-j N] [ID ...]: run every kept seeded change (seeded/<ID>/<name>/patch.diff) through
its registered quick check in scratch worktrees, in parallel, and print which are detected."""
import os, subprocess, sys, json
from concurrent.futures import ThreadPoolExecutor
j = int(sys.argv[sys.argv.index('-j') + 1]) if '-j' in sys.argv else 8
ids = [a for a in sys.argv[1:] if a.startswith('C')]
jobs = []
for pid in sorted(os.listdir('/verif/seeded')):
    d = os.path.join('/verif/seeded', pid)
    if not os.path.isdir(d) or (ids and pid not in ids):
        continue
    for name in sorted(os.listdir(d)):
        if os.path.exists(os.path.join(d, name, 'patch.diff')):
            jobs.append((pid, name))
def run(job):
    r = subprocess.run(['/venv/bin/python', '/verif/tools/seed_eval_wt.py', job[0], job[1]], capture_output=True, text=True)
    first = r.stdout.splitlines()[0] if r.stdout else r.stderr[-200:]
    return job, first
with ThreadPoolExecutor(j) as ex:
    res = list(ex.map(run, jobs))
missed = 0
for (pid, name), first in res:
    ok = first.endswith('exit 1')
    missed += (not ok)
    print('%-4s %-50s %s' % (pid, name, 'DETECTED' if ok else 'MISSED  (' + first + ')'))
print('%d seeds, %d not detected' % (len(res), missed))
