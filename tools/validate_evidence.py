#!/usr/bin/env python3-vt
import json, sys, glob, jsonschema
sch = json.load(open('/root/.vp/EVIDENCE.schema.json'))
ok = True
for f in sorted(glob.glob('/verif/evidence/*.json')):
    try:
        jsonschema.validate(json.load(open(f)), sch)
        print('ok ', f)
    except Exception as e:
        ok = False
        print('BAD', f, str(e)[:300])
sys.exit(0 if ok else 1)
