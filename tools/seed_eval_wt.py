#!/venv/bin/python
"""seed_eval_wt.py <ID> <name> [--tier quick|thorough] [--seed N]
Evaluate a seeded change WITHOUT touching /repo: a scratch worktree of /repo HEAD is created under
/tmp, the patch applied there, the registered check run with PYTHONPATH pointing at it (the imported
taurex is asserted to be the worktree's) and with VERIF_SCRATCH so that /verif/evidence is not
rewritten; the worktree is removed afterwards.  The outcome is recorded in meta.json."""
import json, os, shutil, subprocess, sys, tempfile
pid, name = sys.argv[1], sys.argv[2]
tier = sys.argv[sys.argv.index('--tier') + 1] if '--tier' in sys.argv else 'quick'
seed = sys.argv[sys.argv.index('--seed') + 1] if '--seed' in sys.argv else '1'
dst = os.path.join('/verif/seeded', pid, name)
patch = os.path.join(dst, 'patch.diff')
wt = tempfile.mkdtemp(prefix='seedwt_%s_' % pid)
os.rmdir(wt)
scratch = tempfile.mkdtemp(prefix='seedout_%s_' % pid)
subprocess.run(['git', '-C', '/repo', 'worktree', 'add', '-q', '--detach', wt, 'HEAD'], check=True)
try:
    a = subprocess.run(['git', '-C', wt, 'apply', patch], capture_output=True, text=True)
    if a.returncode:
        print('patch does not apply:', a.stderr); sys.exit(3)
    env = dict(os.environ, PYTHONPATH=wt, VERIF_SCRATCH=scratch, VERIF_SEED=seed)
    chk = subprocess.run(['/venv/bin/python', '-c', 'import taurex;print(taurex.__file__)'], env=env, cwd='/tmp',
                         capture_output=True, text=True)
    assert chk.stdout.strip().startswith(wt), (chk.stdout, chk.stderr[-300:])
    r = subprocess.run(['/venv/bin/python', '/verif/run.py', pid, '--tier', tier, '--no-shrink'], cwd='/verif',
                       capture_output=True, text=True, env=env)
finally:
    subprocess.run(['git', '-C', '/repo', 'worktree', 'remove', '--force', wt])
    shutil.rmtree(scratch, ignore_errors=True)
lines = [l for l in r.stdout.splitlines() if l.startswith(('violated clause', 'HARNESS', pid + ' '))]
print(pid, name, 'exit', r.returncode)
for l in lines[:8]:
    print('  ', l[:240])
if r.returncode not in (0, 1):
    print(r.stdout[-1500:], r.stderr[-1500:])
mp = os.path.join(dst, 'meta.json')
meta = json.load(open(mp)) if os.path.exists(mp) else {'property': pid}
meta.setdefault('check_results', {})[tier] = {
    'exit': r.returncode, 'detected': r.returncode == 1,
    'labels': [l.split(' (')[0].replace('violated clause ', '') for l in lines if l.startswith('violated')][:10],
    'cmd': 'PYTHONPATH=<scratch worktree with patch> /venv/bin/python run.py %s --tier %s (VERIF_SEED=%s)' % (pid, tier, seed)}
if os.path.exists(os.path.join(dst, 'confirm.json')):
    meta['confirmed'] = json.load(open(os.path.join(dst, 'confirm.json')))
json.dump(meta, open(mp, 'w'), indent=1)
