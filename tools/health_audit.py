#!/venv/bin/python
"""health_audit.py [seeds...]: run every quick check at several VERIF_SEED values (scratch output) and report exit codes and, for
each declared minimum class fraction (REQUIRED), the smallest observed fraction relative to the requirement."""
import json, os, subprocess, sys, importlib, tempfile, shutil
from concurrent.futures import ThreadPoolExecutor
sys.path.insert(0, '/verif')
seeds = [int(a) for a in sys.argv[1:]] or [1, 2, 3, 4, 5, 6]
ids = os.environ.get('IDS', '').split() or ['C%02d' % i for i in range(1, 21)]
root = tempfile.mkdtemp(prefix='health_')
def run(job):
    pid, seed = job
    sc = os.path.join(root, '%s_%d' % (pid, seed))
    env = dict(os.environ, VERIF_SEED=str(seed), VERIF_SCRATCH=sc)
    r = subprocess.run(['/venv/bin/python', '/verif/run.py', pid, '--tier', 'quick', '--no-shrink'], cwd='/verif', env=env, capture_output=True, text=True)
    ev = None
    try:
        ev = json.load(open(os.path.join(sc, 'evidence', pid + '.json')))
    except Exception:
        pass
    return pid, seed, r.returncode, ev, r.stdout[-600:]
with ThreadPoolExecutor(12) as ex:
    res = list(ex.map(run, [(p, s) for p in ids for s in seeds]))
bad = [(p, s, rc, out) for p, s, rc, ev, out in res if rc != 0]
for p, s, rc, out in bad:
    print('NONZERO', p, 'seed', s, 'exit', rc, out.replace('\n', ' | ')[-400:])
for pid in ids:
    mod = importlib.import_module('vlib.props.' + pid.lower())
    req = getattr(mod, 'REQUIRED', {})
    worst = []
    for cl, frac in req.items():
        ratios = []
        for p, s, rc, ev, out in res:
            if p != pid or ev is None:
                continue
            n = max(1, ev['coverage']['evaluations'] - ev['coverage']['replayed_files'])
            ratios.append(ev['coverage']['class_histogram'].get(cl, 0) / n / frac)
        if ratios:
            worst.append((min(ratios), cl))
    worst.sort()
    print(pid, 'tightest margins (observed/required):', ', '.join('%s %.1fx' % (c, r) for r, c in worst[:3]))
shutil.rmtree(root, ignore_errors=True)
print('%d runs, %d non-zero exits' % (len(res), len(bad)))
