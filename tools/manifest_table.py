NOTES = ('All checks: run.py <ID> --tier quick|thorough; VERIF_SEED seeds Hypothesis; exit 0 held / 1 VIOLATION / 2 harness error. '
         'Genuine defects repaired by fix: commits in /repo are recorded in known_findings.json as fixed entries (they suppress nothing).')

CHECKS = {
 'C04': dict(
  technique='property-based testing (Hypothesis) against a reference interpolation model + bracket/node validity predicates',
  text='Generated tables and (T,P) points aimed at all nine in/out-of-grid regions, nodes and ulp neighbours are evaluated through Opacity.opacity and compared with an independent reference interpolation (clamped, zero below both minima) and with min/max of the bracketing nodes; exploration level: held on every generated case, no absence claim.',
  note='In-memory InterpolatingOpacity/KTable subclasses stand in for file-backed tables; float tolerance 1e-13 x largest neighbouring node + 1e-11 relative; reference follows the kernel docstring for exp mode.'),
 'C05': dict(
  technique='property-based testing (Hypothesis) against an explicit-loop overlap-weighted-mean reference + metamorphic relations (constant, bounds, linearity, permutation)',
  text='Generated native grids (smooth with implied widths, explicit non-overlapping bins with gaps), target grids with overlaps/gaps/out-of-range bins, 1-D/2-D spectra, errors and permutations of native and target points; FluxBinner compared bin by bin with a loop reference, SimpleBinner with the plain mean between mid-point edges, NativeBinner with identity; exploration level.',
  note='Native bin = centre +/- width/2 (mid-point widths when none are passed); errors only with 1-D spectra (no caller passes errors with 2-D optical depths); rtol 1e-10.'),
 'C08': dict(
  technique='property-based testing (Hypothesis): inverse-CDF oracle (closed form / forward CDF via erfc), monotonicity, text-vs-constructed differential through create_prior and ParameterParser',
  text='Generated priors of all four kinds (bounds in either order, magnitudes 1e-300..1e300, lin_* arguments), u including 0, 1 and extreme tails, prior strings from a grammar over the documented syntax, and default priors from (mode, bounds); each compared with closed-form inverse CDFs / erfc round trip and with the directly constructed object; exploration level.',
  note='Equal bounds and overflowing ranges excluded; leading whitespace inside the quoted text excluded; scipy.stats is the code under test, math.erfc the oracle.'),
 'C18': dict(
  technique='property-based testing (Hypothesis) with a simulated MPI communicator (threads + barrier, pickling collectives) against a two-pass weighted mean/variance reference and a single-rank differential',
  text='Generated sample sets, weight distributions and ARBITRARY sample-to-rank assignments (empty and single-sample ranks by construction) are pushed through OnlineVariance on 1-8 simulated ranks; every rank must return the two-pass weighted variance and agree with the single-process run; exploration level.',
  note='mpi4py replaced by a double implementing its documented object-collective semantics (real MPI not available); part (b) runs Optimizer.generate_profiles / compute_derived_trace on N simulated ranks with one model+optimizer instance per rank against the single-process run; standard deviations compared as variances with an absolute rounding floor.'),
 'C01': dict(
  technique='property-based testing (Hypothesis) of synthetic atmospheres against an explicit-loop reference of the transit-depth integral (independent chord geometry, P/kT density, table x mixing-ratio opacities, modelled saturation cut-off) plus metamorphic bounds and opacity-scaling relation',
  text='Generated worlds (planet, star, 2-40 layers, pressure range, temperature profile, 1-3 molecules with tables of every magnitude class, optional CIA/Rayleigh/clouds, both path-length methods) are run through TransmissionModel.model() and compared with a from-first-principles reference of chords, optical depth, transmittance and depth, plus depth bounds, bare-planet equality and monotonicity under opacity scaling; exploration level.',
  note='Path-length radii conventions of the two methods are adopted from the code (stated in DESIGN.md); CIA/Rayleigh/cloud opacities are taken as reported by the contribution (judged in C03/C19); atmospheres are kept gravitationally bound by construction.'),
 'C02': dict(
  technique='property-based testing (Hypothesis) against an independent reference of the layered plane-parallel emission integral (own Planck function, own Gauss-Legendre mapping, modelled clamp) plus the isothermal blackbody identity and hot/cold bounds as metamorphic consequences',
  text='Generated worlds with EmissionModel/DirectImageModel (1-8 Gauss points, isothermal/monotone/inverted profiles, all opacity magnitudes, CIA, Rayleigh) are compared with a reference integral on spectrum, per-angle intensities, quadrature nodes and layer transmittance differences; independently the isothermal identity and coldest/hottest blackbody bounds are asserted; exploration level.',
  note='Cross-section mode here (k-table mode in C20 against the same oracle); clouds excluded from emission worlds; direct-image constant 1/2 adopted as convention; rtol 1e-8.'),
 'C03': dict(
  technique='property-based testing (Hypothesis) with differential/metamorphic oracles: product rule between model(), model_contrib() and model_full_contrib(), insertion-order permutation, zero-abundance removal, per-component opacity vs table x mixing ratio reference, probe histories (fresh model, sub-grid, parameter change)',
  text='Generated transmission worlds with a drawn subset and insertion order of six built-in contributions; transmittances of the whole, of each contribution and of each component are compared through the product rule (exact off the cut-off, one-sided on saturated layers), spectra of permuted insertion orders and of worlds with/without a zero-abundance species are compared, component opacities are compared with the reference; exploration level.',
  note='H- not generated; Rayleigh/Mie components only checked for proportionality; one open known finding (two hazes sharing the name Mie).'),
 'C19': dict(
  technique='property-based testing (Hypothesis): validity predicates over per-layer opacities (opaque at/below cloud top, untouched above, zero outside the haze window, declared magnitude and wavelength law inside) plus differential against the cloud-free model and the reference transit integral',
  text='Generated transmission worlds with a cloud deck / grey haze / parameterised haze whose bounds are placed inside, beyond either end, below 1 Pa, unset or inverted, and cloud tops exactly on a layer pressure; exploration level.',
  note='Haze window = [min,max] of the declared bounds with unset bounds replaced by the atmosphere ends; grey-haze magnitude judged on layers wholly inside (or the largest overlap); emission geometry not judged.'),
 'C20': dict(
  technique='property-based testing (Hypothesis): differential between opacity modes (k-table built by repeating the cross-section table vs cross-section mode on freshly built worlds) and Jensen-inequality / unit-interval validity predicates for non-degenerate k-distributions',
  text='Generated worlds, quadrature weights (1-20 points) and per-point factors; transmission, emission (1-6 Gauss points) and direct-image spectra in k-table mode are compared with cross-section mode on equivalent data; for general factors the layer transmittance must lie in [0,1] and not fall below the transmittance from the weight-averaged coefficient; exploration level.',
  note='In-memory KTable subclasses (file readers in C14); emission comparison carries the licensed e^-10 relative slack; Jensen clause skips layers already saturated in the cross-section run.'),
 'C13': dict(
  technique='property-based testing (Hypothesis): differential between restricted and full evaluations of the same model (sub-range, observation range, cutoff_grid=False), binned differential, and opacity-level bit-equality / bracketing predicates on own and foreign grids (cross-section and k-table layouts)',
  text='Generated worlds whose molecules sit on identical, nested, offset or independent native grids; spectra computed on a sub-range and on an observation range are compared point by point and bin by bin with the full native computation (licensed cut-off slack modelled), and Opacity.opacity is checked for unchanged own points and bracketed foreign points; exploration level.',
  note='Binning clause judged on native spacing <= 1/4 of the widest bin (narrower than the statement); cut-off slack e^-10 as the saturation test minimises over the computed wavenumbers.'),
 'C10': dict(
  technique='property-based testing (Hypothesis) with validity predicates (non-negative, columns sum to one, fill ratios, per-profile range and length) and an independent recomputation of the mean molecular weight and of the active/inactive split; totals steered into valid / boundary / invalid classes by construction',
  text='Generated fill lists (1-4 gases), trace gases of all five profile types, layer counts that are not multiples of ten, and availability of opacity data in cross-section or k-table mode; valid totals must give a proper mixture, totals above one must be rejected with InvalidChemistryException; exploration level.',
  note='Atomic weights taken from the code (data), formula parsing and sums independent; boundary totals (within 1e-9 of one) accept either outcome.'),
 'C11': dict(
  technique='property-based testing (Hypothesis) against a pure-python bottom-up hydrostatic integration and shape/ordering predicates over every exposed and stored per-layer quantity',
  text='Generated planets, 1-200 layers, log-spaced or arbitrary decreasing levels, arbitrary temperature and molecular-weight arrays (function level) and whole models on simple or array pressure profiles (model level); altitude, thickness, gravity, scale height and density compared with the reference; every per-layer array and every entry of generate_profiles() must have exactly one entry per layer; exploration level.',
  note='Physical constants typed in; condition-aware tolerance for nearly equal levels; array profiles judged when the derived levels decrease strictly.'),
 'C12': dict(
  technique='property-based testing (Hypothesis) with validity predicates (one finite positive value per layer, inside the control range, constant for equal controls), a closed-form reference for the Guillot profile, and negative classes that must be rejected as an invalid model',
  text='Generated layer counts, pressure grids and parameters for all built-in temperature profiles (isothermal, N-point with smoothing and slope limit, array with/without pressure points, text file, layer-correlated, Guillot), including the four rejected classes; exploration level.',
  note='Guillot reference uses E2 via exp1 (not the expn call of the code) and typed constants; smoothing window 0-100 percent.'),
 'C17': dict(
  technique='property-based testing (Hypothesis): metamorphic relation (row permutation leaves every public view unchanged, bit for bit), alignment oracle (values/errors/widths are injective functions of the wavelength), unit-conversion reference, and differential of the created binner against the C05 overlap-mean reference',
  text='Generated observations (2-60 rows, 3 or 4 columns, independent widths, row permutations) loaded from arrays, text files and TauREx HDF5 files (class and function loaders); wavenumber grid, values, errors, widths, edges and the binner created from the observation are checked for order independence, alignment and units; exploration level.',
  note='Four-column edges are centre +/- width/2 in wavelength; HDF5 sources carry rtol 1e-12 for the double width conversion.'),
 'C07': dict(
  technique='model-based property testing (Hypothesis-generated call histories interpreted against a plain-dict model of the settings) with a history-independence differential against a fresh optimizer configured directly to the final settings',
  text='Generated phased histories of enable/disable fit, set_mode, set_boundary, set_factor_boundary, set_prior (matching and mismatching spaces), enable/disable derived, compile_params, update_model and unknown-name calls over model and observation parameters; after every compile names, order, values, boundaries, priors and derived names must equal what the settings model implies, writing the reported values back must change nothing, update_model must set exactly the fitted parameters; exploration level.',
  note='Histories are lists of operations drawn by Hypothesis (shrunk as one value) rather than a RuleBasedStateMachine, so that a case is a JSON replay; values/bounds positive; planet_sma treated as the documented alias of planet_distance.'),
 'C06': dict(
  technique='property-based testing (Hypothesis) with recording doubles at the sampler entry points (nestle.sample, pymultinest.run, pypolychord.run_polychord): callbacks are driven with generated unit-cube sequences and compared with reference inverse CDFs and with a Gaussian log-likelihood recomputed by an independent model instance and the reference binning; invalid atmospheres are injected mid-sequence',
  text='Generated retrievable worlds, fitted-parameter subsets with distinct priors, shuffled heteroscedastic observations and sequences of valid and invalid cube points for each wrapped sampler; prior callback order/values, log-likelihood values, non-finite result without raising for invalid vectors, and absence of state leaking from failed evaluations; exploration level.',
  note='External samplers replaced by doubles implementing their documented callback contracts; dyPolyChord not covered; chi^2 == 0 excluded (mapped to NaN on purpose by the code).'),
 'C09': dict(
  technique='property-based testing (Hypothesis): generated posterior sample sets are injected through sampler doubles (a real nestle.Result; pymultinest files + Analyzer statistics), Optimizer.fit() runs end to end and the returned solution is compared with reference weighted quantiles/means, the delivered arrays (bit-equality), an independent model at MAP/median with reference binning, and derived values recomputed sample by sample',
  text='Generated sample sets (1-80 points, uniform/Dirichlet/geometric/tied/zero weights), fitted and derived parameter selections, nestle and MultiNest (single and multi-mode) delivery; exploration level.',
  note='PolyChord post-processing not claimed; quantile intervals widen only where ties or zero weights make the order among equal points arbitrary; modes always carry posterior mass.'),
 'C14': dict(
  technique='property-based testing (Hypothesis): differential between file formats of one generated table (pickle / HDF5 with declared unit / Exo-Transmit; k-table pickle / HDF5; CIA pickle / HITRAN text) anchored to a reference interpolation of the generated table in SI, name-sanitising reference, and generated histories of cache operations with invariants (same object until cleared, loaded from the configured path, interpolation mode in force)',
  text='Generated tables, pressure units, file names (plain and isotopologue), HITRAN files with per-range temperature subsets and negative entries, and cache operation sequences; exploration level.',
  note='Real line-list files are absent: files are written by the harness in each reader\'s documented layout; HDF5 molecule names are generated already sanitised; units limited to those astropy parses.'),
 'C16': dict(
  technique='property-based testing (Hypothesis): round-trip oracle (store_dictionary -> h5py read-back of generated nested dictionaries; model.write -> taurex_hdf5_to_model -> same types, parameters and spectrum) and self-consistency predicates on generated spectrum outputs against the binner and the C05 reference',
  text='Generated nested dictionaries of every storable kind (including ragged lists and lists of dictionaries), spectrum outputs for three binners x three output sizes, and models of drawn component combinations written and rebuilt; exploration level.',
  note='String lists limited to the S64 ASCII column that is the file format; constructor arguments the writers do not store are reported only if they change fitted parameters or the spectrum.'),
}

NOT_APPLICABLE = {}
