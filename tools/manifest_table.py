NOTES = ('All checks: run.py <ID> --tier quick|thorough; VERIF_SEED seeds Hypothesis; exit 0 held / 1 VIOLATION / 2 harness error. '
         'Genuine defects repaired by fix: commits in /repo are recorded in known_findings.json as fixed entries (they suppress nothing).')

CHECKS = {
 'C04': dict(
  technique='property-based testing (Hypothesis) against a reference interpolation model + bracket/node validity predicates',
  text='Generated tables and (T,P) points aimed at all nine in/out-of-grid regions, nodes and ulp neighbours are evaluated through Opacity.opacity and compared with an independent reference interpolation (clamped, zero below both minima) and with min/max of the bracketing nodes; exploration level: held on every generated case, no absence claim.',
  note='In-memory InterpolatingOpacity/KTable subclasses stand in for file-backed tables; float tolerance 1e-13 x largest neighbouring node + 1e-11 relative; reference follows the kernel docstring for exp mode.'),
}

NOT_APPLICABLE = {}
