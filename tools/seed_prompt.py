#!/usr/bin/env python3
"""Print the sub-agent prompt for seeding a property-breaking change (only the property text + a worktree)."""
import json, sys
pid, wt = sys.argv[1], sys.argv[2]
focus = sys.argv[3] if len(sys.argv) > 3 else ''
FOCUS = {'': '', 'boundary': ' ONE of the two changes must only manifest at a boundary or degenerate point of the legal input domain that ordinary use rarely visits (smallest legal sizes such as a single layer / single wavenumber / single sample / two rows, values exactly equal or exactly on a grid node / edge / limit, zero or unset sentinel values, extreme but legal magnitudes, descending or unsorted order where any order is legal); the OTHER must be a pair of edits in two different functions or files that each look harmless alone and only break the property together, or a unit/convention slip that cancels out in the common configuration and shows only in a less common one.', 'history': ' At least ONE of the two changes must only manifest through a multi-step sequence of operations on the same live objects (re-use after a parameter/setting change, second call on a different grid, re-load, re-compile, cache re-use) or through two cooperating edits in different functions that each look harmless alone; the other should need an unusual-but-legal input (boundary value, degenerate size, unsorted/duplicated/tied data, extreme magnitude, rarely used option).'}[focus]
p = [json.loads(l) for l in open('/verif/properties.jsonl') if json.loads(l)['id'] == pid][0]
print(f"""You are helping test a verification effort by seeding a realistic defect into a Python code base.

Repository: a git worktree of ucl-exoplanets/TauREx3_public (TauREx 3, exoplanet atmospheric retrieval code) at {wt} . Work ONLY inside {wt}; never touch /repo or /verif (do not read /verif either). Python interpreter: /venv/bin/python (the package `taurex` is installed in editable mode pointing at /repo, so to import YOUR worktree's code you MUST run with `cd {wt} && PYTHONPATH={wt} /venv/bin/python ...`; verify with `python -c "import taurex; print(taurex.__file__)"`). No network. pymultinest/pypolychord/mpi4py/matplotlib are not installed.

The semantic property under study ({pid}: {p['title']}):

STATEMENT: {p['statement']}

QUANTIFIED OVER: {p['quantifier']['text']}

WHY THE EXISTING TESTS CANNOT SETTLE IT: {p['why_tests_cant']}

CODE ANCHORS: files {', '.join(p['anchors']['files'])}; mechanisms: {'; '.join(m['name']+' ('+m['where']+')' for m in p['anchors']['mechanism'])}

YOUR TASK: produce TWO independent, different changes (mutations) to the library source under {wt}/taurex, each of which BREAKS this property while the code still imports and the existing test suite still passes. Each must be realistic (the kind of slip a maintainer could make in a refactor or optimisation: an off-by-one, a wrong index/side/comparison, a dropped factor, a stale cache, a missed sort, mishandled edge case) and should need something SPECIFIC to manifest — an unusual but legal input, a particular multi-step sequence of operations, a specific configuration, two cooperating sites that each look fine alone — rather than being exposed at once by any ordinary use. Do not make changes that crash on every call. The two changes should be in different mechanisms/places if possible.{FOCUS}

For each change i in (1, 2) deliver, in {wt}/seed_out/m<i>/ :
  - patch.diff : `git diff` of the change against the worktree HEAD (only files under taurex/), applying cleanly with `git apply` at HEAD;
  - demo.py : a small standalone program that exits 0 on the unmodified code and exits non-zero (with a short message) with the change applied, demonstrating the property violation through the public API (it must be run as `cd <tree> && PYTHONPATH=<tree> /venv/bin/python demo.py`; do not hard-code the worktree path inside it: use the taurex that is importable). Build any inputs it needs in memory (there are no opacity data files in the sandbox; subclass the public classes or write small temp files).
  - meta.json : {{"property": "{pid}", "summary": "...", "needs_to_manifest": "... what specific input/sequence/config is needed ...", "files_changed": [...], "suite": "what you ran and the result"}}

Procedure: (1) read the relevant code; (2) for each change: edit, write demo.py, confirm demo fails with the change and passes without (use `git diff > /tmp/x.diff; git checkout -- taurex; ...; git apply /tmp/x.diff` -- do NOT use `git stash`: the stash is shared between all worktrees of this repository and other agents are working in sibling worktrees), and confirm the existing tests that touch the changed files still pass, then run the stable test-suite command once per change: `cd {wt} && PYTHONPATH={wt} /venv/bin/python -m pytest -q -p no:cacheprovider --timeout=900 --continue-on-collection-errors -x -q tests 2>&1 | tail -15` is too strict (some tests fail on the unmodified tree already: tests/test_modelload.py, tests/spectrum, tests/util/test_util.py, tests/stellar/test_phoenix.py, tests/temperature/test_npoint.py, tests/test_pressure.py::test_simple_pressure, and the factory keyword tests are flaky) — so instead run without -x and compare the set of failing tests with the unmodified tree's failures (run the suite once on the unmodified tree first to get the baseline failures; it takes about 4-5 minutes). A change is acceptable only if it introduces NO new failing test. (3) leave the worktree with taurex/ restored to HEAD (`git checkout -- taurex`) and the deliverables in seed_out/.

Finish with a short report: for each change the one-line summary, what is needed to trigger it, and the pytest outcome. Do not commit anything.""")
