#!/venv/bin/python
"""confirm_seed.py <worktree> <mdir>: confirm a seeded change in a scratch worktree:
demo passes without, fails with; stable baseline tests still pass with the change."""
import json, subprocess, sys, os, xml.etree.ElementTree as ET
wt, mdir = sys.argv[1], sys.argv[2]
env = dict(os.environ, PYTHONPATH=wt)
def sh(cmd, **k):
    return subprocess.run(cmd, cwd=wt, env=env, capture_output=True, text=True, **k)
res = {}
sh(['git', 'checkout', '--', 'taurex'])
r = sh(['/venv/bin/python', os.path.join(mdir, 'demo.py')])
res['demo_clean_exit'] = r.returncode
a = sh(['git', 'apply', os.path.join(mdir, 'patch.diff')])
res['apply'] = a.returncode
r = sh(['/venv/bin/python', os.path.join(mdir, 'demo.py')])
res['demo_patched_exit'] = r.returncode
res['demo_patched_out'] = (r.stdout + r.stderr)[-600:]
junit = os.path.join(mdir, 'junit.xml')
if '--no-suite' not in sys.argv:
    sh(['/venv/bin/python', '-m', 'pytest', '-q', '-p', 'no:cacheprovider', '--timeout=900',
        '--continue-on-collection-errors', '--junitxml=' + junit])
    passed = set()
    for tc in ET.parse(junit).getroot().iter('testcase'):
        if not any(c.tag in ('failure', 'error', 'skipped') for c in tc):
            passed.add(tc.get('classname') + '::' + tc.get('name'))
    stable = set(json.load(open('/root/.vp/BASELINE.json'))['stable_pass'])
    res['stable_missing'] = sorted(stable - passed)
    os.remove(junit)
sh(['git', 'checkout', '--', 'taurex'])
res['ok'] = (res['demo_clean_exit'] == 0 and res['apply'] == 0 and res['demo_patched_exit'] != 0
             and not res.get('stable_missing'))
json.dump(res, open(os.path.join(mdir, 'confirm.json'), 'w'), indent=1)
print(json.dumps(res, indent=1))
