#!/venv/bin/python
"""mutscan.py <ID> [-n N] [-j J] [--seed S] [--all-functions]
Operator-level mutation scan of the code a property is anchored in (properties.jsonl: anchors.files, and the function names in
anchors.mechanism[].where).  Every mutant is one token changed in a scratch worktree of /repo (never /repo itself); the property's
quick check is run against it through PYTHONPATH + VERIF_SCRATCH.  Result lines go to /verif/mutscan/<ID>.jsonl:
exit 1 = detected, exit 0 = survived (to be read by hand: equivalent mutant, outside the property, or a gap in the check),
exit 2 = the harness could not run (import error, generator health) - counted apart.
This is a sensitivity measurement of the checks, not a check: nothing here is registered in MANIFEST.json."""
import ast, json, os, random, re, shutil, subprocess, sys, tempfile
from concurrent.futures import ThreadPoolExecutor

args = sys.argv[1:]
pid = args[0]
def opt(flag, default):
    return type(default)(args[args.index(flag) + 1]) if flag in args else default
N, J, SEED = opt('-n', 40), opt('-j', 6), opt('--seed', 1)
ALLF = '--all-functions' in args
prop = [json.loads(l) for l in open('/verif/properties.jsonl') if json.loads(l)['id'] == pid][0]
files = [f for f in prop['anchors']['files'] if f.endswith('.py') and os.path.exists('/repo/' + f)]
wanted = set()
for m in prop['anchors']['mechanism']:
    wanted |= set(re.findall(r'[A-Za-z_][A-Za-z_0-9]*', m['where']))

CMP = {ast.Lt: '<=', ast.LtE: '<', ast.Gt: '>=', ast.GtE: '>', ast.Eq: '!=', ast.NotEq: '=='}
CMPTOK = {ast.Lt: '<', ast.LtE: '<=', ast.Gt: '>', ast.GtE: '>=', ast.Eq: '==', ast.NotEq: '!='}
BIN = {ast.Add: ('+', '-'), ast.Sub: ('-', '+'), ast.Mult: ('*', '/'), ast.Div: ('/', '*')}
NAMES = {'min': 'max', 'max': 'min', 'argmin': 'argmax', 'argmax': 'argmin', 'floor': 'ceil', 'ceil': 'floor', 'minimum': 'maximum',
         'maximum': 'minimum', 'amin': 'amax', 'amax': 'amin', 'cumsum': 'cumprod', 'log10': 'log', 'any': 'all', 'all': 'any',
         'left': 'right', 'right': 'left'}


def offsets(src):
    starts, o = [0], 0
    for line in src.splitlines(True):
        o += len(line.encode()); starts.append(o)
    return starts


def sites(rel):
    src = open('/repo/' + rel).read()
    b = src.encode()
    st = offsets(src)
    pos = lambda ln, col: st[ln - 1] + col
    tree = ast.parse(src)
    out = []
    def between(a, c, tok, new, kind, ln):
        s, e = pos(a.end_lineno, a.end_col_offset), pos(c.lineno, c.col_offset)
        seg = b[s:e].decode()
        i = seg.find(tok)
        if i < 0 or seg.count(tok) != 1:
            return
        out.append((rel, ln, kind, s + len(seg[:i].encode()), s + len(seg[:i].encode()) + len(tok), new))
    def visit(node, infn):
        if isinstance(node, (ast.FunctionDef, ast.AsyncFunctionDef)):
            infn = infn or ALLF or node.name in wanted
        if infn:
            if isinstance(node, ast.Compare) and len(node.ops) == 1 and type(node.ops[0]) in CMP:
                between(node.left, node.comparators[0], CMPTOK[type(node.ops[0])], CMP[type(node.ops[0])], 'cmp', node.lineno)
            elif isinstance(node, ast.BinOp) and type(node.op) in BIN:
                tok, new = BIN[type(node.op)]
                between(node.left, node.right, tok, new, 'bin', node.lineno)
            elif isinstance(node, ast.Constant) and isinstance(node.value, int) and not isinstance(node.value, bool) \
                    and 0 <= node.value <= 3 and node.end_lineno == node.lineno:
                s, e = pos(node.lineno, node.col_offset), pos(node.end_lineno, node.end_col_offset)
                if b[s:e].decode() == str(node.value):
                    out.append((rel, node.lineno, 'const', s, e, str(node.value + 1)))
                    if node.value >= 1:
                        out.append((rel, node.lineno, 'const', s, e, str(node.value - 1)))
            elif isinstance(node, ast.Constant) and isinstance(node.value, str) and node.value in ('left', 'right') \
                    and node.end_lineno == node.lineno:
                s, e = pos(node.lineno, node.col_offset), pos(node.end_lineno, node.end_col_offset)
                out.append((rel, node.lineno, 'side', s, e, repr(NAMES[node.value])))
            elif isinstance(node, ast.Attribute) and node.attr in NAMES and node.attr not in ('left', 'right'):
                e = pos(node.end_lineno, node.end_col_offset)
                out.append((rel, node.lineno, 'name', e - len(node.attr), e, NAMES[node.attr]))
            elif isinstance(node, ast.Name) and node.id in NAMES and node.id not in ('left', 'right') and isinstance(node.ctx, ast.Load):
                s, e = pos(node.lineno, node.col_offset), pos(node.end_lineno, node.end_col_offset)
                out.append((rel, node.lineno, 'name', s, e, NAMES[node.id]))
            elif isinstance(node, ast.UnaryOp) and isinstance(node.op, ast.Not):
                s, e = pos(node.lineno, node.col_offset), pos(node.operand.lineno, node.operand.col_offset)
                if b[s:e].decode().strip() == 'not':
                    out.append((rel, node.lineno, 'not', s, e, ''))
            elif isinstance(node, ast.BoolOp) and len(node.values) == 2:
                tok, new = ('and', 'or') if isinstance(node.op, ast.And) else ('or', 'and')
                between(node.values[0], node.values[1], tok, new, 'bool', node.lineno)
        for ch in ast.iter_child_nodes(node):
            visit(ch, infn)
    visit(tree, False)
    return out, b


allsites, blobs = [], {}
for f in files:
    s, b = sites(f)
    allsites += s; blobs[f] = b
rng = random.Random(SEED)
rng.shuffle(allsites)
chosen = allsites[:N]
print('%s: %d candidate sites in %d files (%s), %d chosen' % (pid, len(allsites), len(files),
      'all functions' if ALLF else 'anchored functions: ' + ' '.join(sorted(wanted & {n.name for f in files for n in ast.walk(ast.parse(blobs[f].decode())) if isinstance(n, ast.FunctionDef)})), len(chosen)), flush=True)

pool = []
def worktree():
    wt = tempfile.mkdtemp(prefix='mutscan_'); os.rmdir(wt)
    subprocess.run(['git', '-C', '/repo', 'worktree', 'add', '-q', '--detach', wt, 'HEAD'], check=True)
    return wt
import threading, queue
q = queue.Queue()
for _ in range(J):
    q.put(worktree())

def run(site):
    rel, ln, kind, s, e, new = site
    wt = q.get()
    scratch = tempfile.mkdtemp(prefix='mutout_')
    try:
        b = blobs[rel]
        mut = b[:s] + new.encode() + b[e:]
        try:
            ast.parse(mut.decode())
        except SyntaxError:
            return None
        open(os.path.join(wt, rel), 'wb').write(mut)
        env = dict(os.environ, PYTHONPATH=wt, VERIF_SCRATCH=scratch, VERIF_SEED='1')
        try:
            r = subprocess.run(['/venv/bin/python', '/verif/run.py', pid, '--tier', 'quick', '--no-shrink'], cwd='/verif', env=env,
                               capture_output=True, text=True, timeout=1500)
            rc, outp = r.returncode, r.stdout
        except subprocess.TimeoutExpired:
            rc, outp = 3, ''
        lines = [l.strip() for l in outp.splitlines() if l.strip().startswith(('violated clause', 'HARNESS'))]
        line_src = b.decode().splitlines()[ln - 1].strip()
        rec = {'file': rel, 'line': ln, 'kind': kind, 'was': b[s:e].decode(), 'now': new, 'source': line_src[:160], 'exit': rc,
               'first': (lines[0][:200] if lines else '')}
        print(json.dumps(rec), flush=True)
        return rec
    finally:
        open(os.path.join(wt, rel), 'wb').write(blobs[rel])
        shutil.rmtree(scratch, ignore_errors=True)
        q.put(wt)

try:
    with ThreadPoolExecutor(J) as ex:
        res = [r for r in ex.map(run, chosen) if r]
finally:
    while not q.empty():
        subprocess.run(['git', '-C', '/repo', 'worktree', 'remove', '--force', q.get()])
    subprocess.run(['git', '-C', '/repo', 'worktree', 'prune'])
os.makedirs('/verif/mutscan', exist_ok=True)
with open('/verif/mutscan/%s.jsonl' % pid, 'a') as f:
    for r in res:
        f.write(json.dumps(dict(r, scan_seed=SEED)) + '\n')
det = sum(r['exit'] == 1 for r in res); sur = sum(r['exit'] == 0 for r in res)
print('%s: %d mutants, %d detected, %d survived, %d harness/timeout' % (pid, len(res), det, sur, len(res) - det - sur))
