#!/venv/bin/python
"""mutwt.py <ID> <repo-relative-file> <old> <new> [--tier t] : textual mutation evaluated in a scratch worktree of /repo
(PYTHONPATH + VERIF_SCRATCH), /repo itself is never touched.  Appends one line to sensitivity.log."""
import os, shutil, subprocess, sys, tempfile
pid, rel, old, new = sys.argv[1:5]
tier = sys.argv[sys.argv.index('--tier') + 1] if '--tier' in sys.argv else 'quick'
wt = tempfile.mkdtemp(prefix='mutwt_'); os.rmdir(wt)
scratch = tempfile.mkdtemp(prefix='mutout_')
subprocess.run(['git', '-C', '/repo', 'worktree', 'add', '-q', '--detach', wt, 'HEAD'], check=True)
try:
    path = os.path.join(wt, rel)
    src = open(path).read()
    if old not in src:
        print('MUT: pattern not found'); sys.exit(3)
    open(path, 'w').write(src.replace(old, new, 1))
    env = dict(os.environ, PYTHONPATH=wt, VERIF_SCRATCH=scratch)
    r = subprocess.run(['/venv/bin/python', '/verif/run.py', pid, '--tier', tier, '--no-shrink'], cwd='/verif', env=env,
                       capture_output=True, text=True)
finally:
    subprocess.run(['git', '-C', '/repo', 'worktree', 'remove', '--force', wt])
    shutil.rmtree(scratch, ignore_errors=True)
lines = [l for l in r.stdout.splitlines() if l.startswith(('violated clause', 'HARNESS', pid + ' '))]
print('MUT %s %r -> %r : exit %d' % (rel, old[:50], new[:50], r.returncode))
for l in lines[:5]:
    print('   ', l[:200])
with open('/verif/sensitivity.log', 'a') as lf:
    lf.write('%s\t%s\t%r -> %r\texit=%d\t%s\n' % (pid, rel, old, new, r.returncode, (lines[0][:160] if lines else '')))
