#!/venv/bin/python
"""Run the repository's pinned suite on /repo and compare with BASELINE.json stable_pass."""
import json, subprocess, sys, os, tempfile, xml.etree.ElementTree as ET
junit = os.path.join(tempfile.mkdtemp(prefix='verif_base_'), 'junit.xml')
subprocess.run(['/venv/bin/python', '-m', 'pytest', '-ra', '-q', '-p', 'no:cacheprovider', '--timeout=900',
                '--continue-on-collection-errors', '--junitxml=' + junit], cwd='/repo', capture_output=True)
passed = set()
for tc in ET.parse(junit).getroot().iter('testcase'):
    if not any(c.tag in ('failure', 'error', 'skipped') for c in tc):
        passed.add(tc.get('classname') + '::' + tc.get('name'))
stable = set(json.load(open('/root/.vp/BASELINE.json'))['stable_pass'])
missing = sorted(stable - passed)
print('passed', len(passed), 'stable', len(stable), 'stable tests not passing:', missing)
os.remove(junit)
sys.exit(1 if missing else 0)
