#!/bin/sh
# process_seed.sh <ID> <worktree> <m-dir-name> <kept-name>: confirm a sub-agent's change in its scratch worktree
# (demo passes without / fails with, stable suite still passes), copy to seeded/<ID>/<kept-name>/ and run the
# registered quick check against it in another scratch worktree.  /repo is never modified.
ID=$1; WT=$2; M=$3; NAME=$4
/venv/bin/python /verif/tools/confirm_seed.py $WT $WT/seed_out/$M > /tmp/confirm_${ID}_$M.log 2>&1
mkdir -p /verif/seeded/$ID/$NAME
for f in patch.diff demo.py meta.json confirm.json; do cp $WT/seed_out/$M/$f /verif/seeded/$ID/$NAME/ 2>/dev/null; done
/venv/bin/python /verif/tools/seed_eval_wt.py $ID $NAME
grep '"ok"' /verif/seeded/$ID/$NAME/confirm.json
