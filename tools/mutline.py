#!/venv/bin/python
"""tools/mutline.py <ID> <repo-rel-file> <lineno> <old-substring> <new-substring> [run.py args]
Line-anchored variant of mut.py."""
import subprocess, sys, os
pid, rel, ln, old, new = sys.argv[1:6]
extra = sys.argv[6:]
path = os.path.join('/repo', rel)
src = open(path).read()
lines = src.split('\n')
i = int(ln) - 1
if old not in lines[i]:
    print('MUT: pattern not on line'); sys.exit(3)
lines[i] = lines[i].replace(old, new, 1)
open(path, 'w').write('\n'.join(lines))
try:
    r = subprocess.run(['/venv/bin/python', '/verif/run.py', pid, '--tier', 'quick', '--no-shrink'] + extra,
                       cwd='/verif', capture_output=True, text=True)
    out = [l for l in r.stdout.splitlines() if l.startswith(('violated clause', 'HARNESS', pid))]
    print('MUT %s:%s %r -> %r : exit %d' % (rel, ln, old[:40], new[:40], r.returncode))
    with open('/verif/sensitivity.log', 'a') as lf:
        lf.write('%s\t%s:%s\t%r -> %r\texit=%d\t%s\n' % (pid, rel, ln, old, new, r.returncode, (out[0][:160] if out else '')))
    for l in out[:4]:
        print('   ', l[:220])
    if r.returncode not in (0, 1):
        print(r.stdout[-1500:], r.stderr[-1500:])
finally:
    open(path, 'w').write(src)
    subprocess.run(['git', '-C', '/verif', 'checkout', '--', 'evidence/%s.json' % pid], capture_output=True)
