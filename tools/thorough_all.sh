#!/bin/sh
# thorough_all.sh <seed> [ids...]: every thorough command once at VERIF_SEED=<seed>, output and evidence under ./thorough_<seed>/
# (meant for `vp run`, which executes it in a snapshot of the committed /verif; .deps is taken from /verif by absolute path)
SEED=$1; shift
IDS=${*:-"01 02 03 04 05 06 07 08 09 10 11 12 13 14 15 16 17 18 19 20"}
D=$(pwd)/thorough_$SEED; mkdir -p $D
[ -d .deps ] || ln -s /verif/.deps .deps
for i in $IDS; do
  VERIF_SEED=$SEED VERIF_SCRATCH=$D /venv/bin/python run.py C$i --tier thorough > $D/C$i.log 2>&1
  echo "C$i seed$SEED exit=$?" >> $D/summary
done
