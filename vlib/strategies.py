"""Shared hypothesis strategies: synthetic worlds as plain JSON-able dicts."""
from hypothesis import strategies as st

fl = st.floats

MOLS = ['H2O', 'CH4', 'CO2', 'CO', 'NH3']
MAGS = {'zero': None, 'transparent': (-40.0, -30.0), 'mixed': (-27.0, -20.0), 'saturated': (-16.0, -8.0)}


@st.composite
def table(draw, nwn, mag=None, tspan=(80.0, 3500.0)):
    """table spec for one molecule on a shared wavenumber grid of nwn points"""
    nT = draw(ints(1, 4))
    nP = draw(ints(1, 4))
    T0 = draw(fl(tspan[0], 1500.0))
    dT = draw(st.lists(fl(50.0, 1200.0), min_size=nT - 1, max_size=nT - 1))
    lP0 = draw(fl(-3.0, 4.0))
    dlP = draw(st.lists(fl(0.3, 3.0), min_size=nP - 1, max_size=nP - 1))
    if mag is None:
        mag = draw(st.sampled_from(['mixed', 'transparent', 'mixed', 'saturated', 'mixed', 'zero']))
    if mag == 'zero':
        base, dpt, dw = 0.0, [], []
    else:
        lo, hi = MAGS[mag]
        base = draw(fl(lo, hi))
        span = draw(st.sampled_from([1.0, 3.0, 0.0, 1.0]))       # constant tables are the exception, not the rule
        # log10 table = base + dpt[p,t] + dw[wn]: few draws, still non-separable in (T,P)
        dpt = [0.0] * (nT * nP) if span == 0.0 else draw(st.lists(fl(0.0, span), min_size=nT * nP, max_size=nT * nP))
        dw = [0.0] * nwn if span == 0.0 else draw(st.lists(fl(0.0, span), min_size=nwn, max_size=nwn))
    # 'ripple': the realised table also carries a fixed, index-dependent pattern along wavenumber and (T,P) (see
    # synth.table_arrays), so that drawn zeros cannot make it constant along an axis: a constant axis hides every
    # misalignment along that axis
    return {'T0': T0, 'dT': dT, 'lP0': lP0, 'dlP': dlP, 'mag': mag, 'base': base, 'dpt': dpt, 'dw': dw,
            'ripple': bool(mag != 'zero' and span > 0.0)}


@st.composite
def temperature(draw, nlayers, allow=('iso', 'ctrl')):
    kind = draw(st.sampled_from(list(allow)))
    if kind == 'iso':
        return {'kind': 'iso', 'T': draw(fl(100.0, 3000.0))}
    k = draw(ints(2, 5))
    return {'kind': 'ctrl', 'T': draw(st.lists(fl(100.0, 3000.0), min_size=k, max_size=k))}


@st.composite
def world(draw, layers=(2, 40), nwn=(1, 12), max_active=3, mags=None, temps=('ctrl', 'iso', 'ctrl'),
          extras=('CIA', 'Rayleigh', 'SimpleClouds'), min_active=1):
    combos = [[]] + [[e] for e in extras] + [list(extras[:2]), list(extras)] if extras else [[]]
    ex = sorted(draw(st.sampled_from(combos)))
    nl = draw(ints(*layers))
    nw = draw(ints(*nwn))
    nact = draw(ints(min_active, max_active))
    mols = draw(perm(MOLS))[:nact]
    gases = []
    for m in mols:
        gases.append({'mol': m, 'logmix': draw(fl(-6.5, -0.7)),
                      # None: constant with height; else log10 ratio of top to bottom abundance
                      'logtop': draw(st.sampled_from([None, None, -3.0, -1.0, 1.0])),
                      'table': draw(table(nw, mag=(draw(st.sampled_from(mags)) if mags else None)))})
    if draw(st.booleans()):
        gases.append({'mol': 'N2', 'logmix': draw(fl(-6.0, -1.0)), 'table': None})   # inactive trace gas
    w = {
        'radius': draw(fl(0.05, 3.0)),              # Rjup
        'logg': draw(fl(0.3, 2.7)),                 # log10 surface gravity, m/s2
        'star_T': draw(fl(2500.0, 10000.0)),
        'star_R': draw(fl(0.1, 3.0)),
        'nlayers': nl,
        'lpmax': draw(fl(3.0, 8.0)),
        'decades': draw(fl(1.0, 12.0)),
        'temp': draw(temperature(nl, temps)),
        'fill': draw(st.sampled_from([['H2', 'He'], ['H2'], ['H2', 'He', 'N2O']])),
        'ratio': [draw(fl(0.01, 0.5)), draw(fl(0.001, 0.2))],
        'gases': gases,
        'wn0': draw(fl(200.0, 5000.0)),
        'dwn': draw(fl(1.0, 400.0)),
        'nwn': nw,
        'extras': ex,
        'cia': draw(table(nw, mag='mixed')) if 'CIA' in extras else None,
        'lpcloud': draw(fl(-1.5, 1.5)),           # cloud top as fraction of the log-pressure range
    }
    # the FORM in which numerically ordinary axes reach the library: opacity files store wavenumbers and temperatures
    # as whole numbers often enough (np.arange(400, 4400, 10); 300, 400, ... K), and loaders keep the file's dtype
    form = draw(pick(['plain', 'int-wn', 'plain', 'int-T', 'plain', 'int-both', 'plain', 'plain']))
    w['form'] = form
    if form in ('int-wn', 'int-both'):
        w['wn0'] = float(round(w['wn0']))
        w['dwn'] = float(max(1, round(w['dwn'])))
    if form in ('int-T', 'int-both'):
        for g in gases:
            if g.get('table'):
                g['table']['T0'] = float(round(g['table']['T0']))
                g['table']['dT'] = [float(max(1, round(x))) for x in g['table']['dT']]
    return w


def pick(options):
    """one of `options`, chosen by a wide integer draw modulo the number of options.  Used for the top-level choice of
    what a case is about: sampled_from keeps re-using the first few indices when Hypothesis mutates earlier examples, and
    a whole run of 150 cases was once seen without a single case of one part"""
    options = list(options)
    return st.integers(0, 2 ** 24).map(lambda i, o=options: o[i % len(o)])


def ints(a, b):
    """integers(a, b) drawn as a + integers(0, b - a): see perm() for why ranges never start away from zero"""
    return st.integers(0, b - a).map(lambda v, a=a: v + a)


@st.composite
def perm(draw, xs):
    """a permutation of xs by Fisher-Yates with offsets drawn from integers(0, k).  Used instead of st.permutations:
    under hypothesis' fuzz_one_input (the atheris campaigns) a draw from integers(a, a+1) with a != 0 never succeeds in
    Hypothesis 6.168, and st.permutations ends with exactly such a draw, so no case containing it could ever be built."""
    xs = list(xs)
    n = len(xs)
    for i in range(n - 1):
        j = i + draw(st.integers(0, n - 1 - i))
        xs[i], xs[j] = xs[j], xs[i]
    return xs
