"""Reference implementations, written from the property statements and the
published formulae (plain numpy / pure python; nothing imported from taurex)."""
import math
import numpy as np



# ---------------------------------------------------------------------------
# C04 interpolation

def bracket(grid, v):
    """indices (lo, hi) of the nodes bracketing v, clamped to the grid; for a
    value outside the grid both are the nearest edge node."""
    n = len(grid)
    if v <= grid[0]:
        return 0, 0
    if v >= grid[-1]:
        return n - 1, n - 1
    hi = 1
    while grid[hi] < v:
        hi += 1
    lo = hi - 1
    if grid[hi] == v:
        return hi, hi
    return lo, hi


def interp_xsec_ref(tab, Tg, Pg, T, P, mode):
    """Reference for Opacity.opacity(T, P) in m2.

    tab[P, T, wn] in cm2; Tg ascending (K); Pg ascending (Pa).
    Outside the grid the nearest edge value is used (no extrapolation); below
    both minimum T and minimum P the documented result is zero.
    linear: bilinear in (T, log10 P).
    exp:    linear in log10 P at each bracketing T, then
            s_lo * exp( ln(s_hi/s_lo) * (1/T_lo - 1/T)/(1/T_lo - 1/T_hi) ).
    """
    tab = np.asarray(tab, dtype=float)
    lp = [math.log10(p) for p in Pg]
    x = math.log10(P)
    if T < Tg[0] and x < lp[0]:
        return np.zeros(tab.shape[2])
    t0, t1 = bracket(Tg, T)
    p0, p1 = bracket(lp, x)

    def along_p(ti):
        if p0 == p1:
            return tab[p0, ti].copy()
        f = (x - lp[p0]) / (lp[p1] - lp[p0])
        return tab[p0, ti] + f * (tab[p1, ti] - tab[p0, ti])

    a = along_p(t0)
    if t0 == t1:
        return a / 1e4
    b = along_p(t1)
    if mode == 'linear':
        g = (T - Tg[t0]) / (Tg[t1] - Tg[t0])
        return (a + g * (b - a)) / 1e4
    w = (1.0 / Tg[t0] - 1.0 / T) / (1.0 / Tg[t0] - 1.0 / Tg[t1])
    with np.errstate(all='ignore'):
        return a * np.exp(w * np.log(b / a)) / 1e4


def bracket_bounds(tab, Tg, Pg, T, P):
    """componentwise [min, max] over the bracketing nodes (edge nodes outside), m2."""
    lp = [math.log10(p) for p in Pg]
    x = math.log10(P)
    t0, t1 = bracket(Tg, T)
    p0, p1 = bracket(lp, x)
    nodes = np.array([tab[p, t] for p in {p0, p1} for t in {t0, t1}])
    return nodes.min(axis=0) / 1e4, nodes.max(axis=0) / 1e4


# ---------------------------------------------------------------------------
# physical constants typed in (SI).  CODATA 2018 exact values.
K_BOLTZ = 1.380649e-23
H_PLANCK = 6.62607015e-34
C_LIGHT = 299792458.0
G_NEWTON = 6.6743e-11


# ---------------------------------------------------------------------------
# C01 transit geometry and integral

def chord_segments(r_tangent, shell_tops):
    """Lengths of the chord at tangent radius r_tangent inside successive
    spherical shells whose outer radii are shell_tops (ascending, all > r_tangent):
    2*(sqrt(r_k^2 - r_t^2) - sqrt(r_{k-1}^2 - r_t^2)), the innermost measured
    from the tangent point."""
    out = []
    prev = 0.0
    for r in shell_tops:
        half = math.sqrt(max(r * r - r_tangent * r_tangent, 0.0))
        out.append(2.0 * (half - prev))
        prev = half
    return out


def path_lengths_legacy(Rp, z, dz):
    """convention of the legacy method: tangent radius Rp + dz[0]/2 + z[l];
    shell tops Rp + dz[0]/2 + z[k] + dz[k]/2 for k >= l"""
    n = len(z)
    res = []
    for l in range(n):
        rt = Rp + dz[0] / 2.0 + z[l]
        tops = [Rp + dz[0] / 2.0 + z[k] + dz[k] / 2.0 for k in range(l, n)]
        res.append(chord_segments(rt, tops))
    return res


def path_lengths_new(Rp, z, dz, zb):
    """convention of the ray-tracing method: tangent radius Rp + z[l] + dz[l]/2
    (layer mid-altitude); shell tops are the layer boundaries Rp + zb[k+1]"""
    n = len(z)
    res = []
    for l in range(n):
        rt = Rp + z[l] + dz[l] / 2.0
        tops = [Rp + zb[k + 1] for k in range(l, n)]
        res.append(chord_segments(rt, tops))
    return res


def transit_depth(Rp, Rs, z, dz, trans):
    """(Rp^2 + 2 sum_l (Rp+z_l)(1-T_l) dz_l)/Rs^2 ; trans[l, wn]"""
    n, nw = trans.shape
    out = []
    for w in range(nw):
        s = 0.0
        for l in range(n):
            s += (Rp + z[l]) * (1.0 - trans[l, w]) * dz[l] * 2.0
        out.append((Rp * Rp + s) / (Rs * Rs))
    return np.array(out)


def slant_tau(path, sigmas, density, powers, cutoff=10.0):
    """tau[l, wn] = sum_c sum_k sigma_c[l+k, wn] * n[l+k]^p_c * path[l][k], contributions in
    the given order; per layer, once the running minimum over wn exceeds `cutoff`
    the remaining contributions are skipped (the licensed early exit).
    sigmas entries may be ('layer', array) for per-layer opacities that are added
    directly (cloud decks).  Returns tau and a flag telling whether any running
    minimum came within 1e-6 (relative) of the cut-off."""
    n = len(path)
    nw = sigmas[0][1].shape[1]
    tau = np.zeros((n, nw))
    borderline = False
    for l in range(n):
        for (kind, sig), p in zip(sigmas, powers):
            m = tau[l].min()
            if abs(m - cutoff) <= 1e-6 * cutoff:
                borderline = True
            if m > cutoff:
                break
            if kind == 'layer':
                tau[l] = tau[l] + sig[l]
                continue
            for k in range(len(path[l])):
                tau[l] = tau[l] + sig[l + k] * (density[l + k] ** p) * path[l][k]
    return tau, borderline


# ---------------------------------------------------------------------------
# C02 thermal emission

def planck_wn(wn, T):
    """pi * B_lambda(T) in W m-2 um-1 at wavenumber wn (cm-1): the surface flux
    density of a blackbody, lambda = 1e-2/wn metres."""
    wn = np.asarray(wn, dtype=float)
    lam = 1e-2 / wn
    x = H_PLANCK * C_LIGHT / (lam * K_BOLTZ * T)
    with np.errstate(all='ignore'):
        return math.pi * 2.0 * H_PLANCK * C_LIGHT ** 2 / lam ** 5 / np.expm1(x) * 1e-6


def gauss_legendre_01(n):
    """nodes/weights of n-point Gauss-Legendre quadrature mapped from [-1,1] to [0,1]"""
    x, w = np.polynomial.legendre.leggauss(n)
    return [(xi + 1.0) / 2.0 for xi in x], [wi / 2.0 for wi in w]


def emission_reference(wn, T, dtau_layer, ngauss, clamp=10.0):
    """Plane-parallel layered thermal integral.

    dtau_layer[l, wn]: vertical optical depth of layer l (l=0 at the surface).
    For each emission-angle cosine mu_i:
      I_i = B(T_0)/pi e^{-tau_surf/mu_i} + sum_l B(T_l)/pi (f(tau_{>l}) - f(tau_{>=l}))
    with f(x) = e^{-x/mu_i}, except that the licensed saturation cut-off sets f(x)=0
    when min over wavenumber of x >= clamp.
    Returns (flux[wn] = 2 pi sum_i I_i mu_i w_i, I[i, wn], layer transmittance difference
    tau_out[l, wn] (mu=1), borderline flag)."""
    n, nw = dtau_layer.shape
    mus, ws = gauss_legendre_01(ngauss)
    above = np.zeros((n + 1, nw))          # above[l] = sum_{k>=l} dtau ; above[n] = 0
    for l in range(n - 1, -1, -1):
        above[l] = above[l + 1] + dtau_layer[l]
    borderline = False
    for l in range(n + 1):
        m = above[l].min()
        if abs(m - clamp) <= 1e-9 * clamp:
            borderline = True

    def f(x, mu):
        if x.min() >= clamp:
            return np.zeros(nw)
        with np.errstate(all='ignore'):
            return np.exp(-x / mu)
    I = np.zeros((ngauss, nw))
    for i, mu in enumerate(mus):
        with np.errstate(all='ignore'):
            acc = planck_wn(wn, T[0]) / math.pi * np.exp(-above[0] / mu)
        for l in range(n):
            acc = acc + planck_wn(wn, T[l]) / math.pi * (f(above[l + 1], mu) - f(above[l], mu))
        I[i] = acc
    flux = np.zeros(nw)
    for i in range(ngauss):
        flux = flux + 2.0 * math.pi * I[i] * mus[i] * ws[i]
    tau_out = np.zeros((n, nw))
    for l in range(n):
        tau_out[l] = f(above[l + 1], 1.0) - f(above[l], 1.0)
    return flux, I, tau_out, borderline
