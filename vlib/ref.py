"""Reference implementations, written from the property statements and the
published formulae (plain numpy / pure python; nothing imported from taurex)."""
import math
import numpy as np



# ---------------------------------------------------------------------------
# C04 interpolation

def bracket(grid, v):
    """indices (lo, hi) of the nodes bracketing v, clamped to the grid; for a
    value outside the grid both are the nearest edge node."""
    n = len(grid)
    if v <= grid[0]:
        return 0, 0
    if v >= grid[-1]:
        return n - 1, n - 1
    hi = 1
    while grid[hi] < v:
        hi += 1
    lo = hi - 1
    if grid[hi] == v:
        return hi, hi
    return lo, hi


def interp_xsec_ref(tab, Tg, Pg, T, P, mode):
    """Reference for Opacity.opacity(T, P) in m2.

    tab[P, T, wn] in cm2; Tg ascending (K); Pg ascending (Pa).
    Outside the grid the nearest edge value is used (no extrapolation); below
    both minimum T and minimum P the documented result is zero.
    linear: bilinear in (T, log10 P).
    exp:    linear in log10 P at each bracketing T, then
            s_lo * exp( ln(s_hi/s_lo) * (1/T_lo - 1/T)/(1/T_lo - 1/T_hi) ).
    """
    tab = np.asarray(tab, dtype=float)
    lp = [math.log10(p) for p in Pg]
    x = math.log10(P)
    if T < Tg[0] and x < lp[0]:
        return np.zeros(tab.shape[2])
    t0, t1 = bracket(Tg, T)
    p0, p1 = bracket(lp, x)

    def along_p(ti):
        if p0 == p1:
            return tab[p0, ti].copy()
        f = (x - lp[p0]) / (lp[p1] - lp[p0])
        return tab[p0, ti] + f * (tab[p1, ti] - tab[p0, ti])

    a = along_p(t0)
    if t0 == t1:
        return a / 1e4
    b = along_p(t1)
    if mode == 'linear':
        g = (T - Tg[t0]) / (Tg[t1] - Tg[t0])
        return (a + g * (b - a)) / 1e4
    w = (1.0 / Tg[t0] - 1.0 / T) / (1.0 / Tg[t0] - 1.0 / Tg[t1])
    with np.errstate(all='ignore'):
        return a * np.exp(w * np.log(b / a)) / 1e4


def bracket_bounds(tab, Tg, Pg, T, P):
    """componentwise [min, max] over the bracketing nodes (edge nodes outside), m2."""
    lp = [math.log10(p) for p in Pg]
    x = math.log10(P)
    t0, t1 = bracket(Tg, T)
    p0, p1 = bracket(lp, x)
    nodes = np.array([tab[p, t] for p in {p0, p1} for t in {t0, t1}])
    return nodes.min(axis=0) / 1e4, nodes.max(axis=0) / 1e4
