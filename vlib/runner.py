"""Shared runner: seeds, sharding, collect-then-shrink, known findings, evidence.

A property module (vlib/props/cXX.py) exposes

    ID           "C04"
    TITLE        short text
    RULE         text: how cases are generated and what makes one non-trivial
    ASSUMPTIONS  list of str
    CASES        {"quick": n, "thorough": n}        total cases over all shards
    SHARDS       {"quick": k, "thorough": k}        optional (default 1 / 16)
    REQUIRED     {class_label: min_fraction}        optional generator health
    def strategy(tier) -> hypothesis strategy producing a JSON-able case
    def check(case) -> Outcome

`check` never raises for a violation of the property: it returns the labels of
the violated clauses.  An exception escaping `check` is a *harness* error and
makes the run exit 2 (never a VIOLATION line).
"""
import argparse
import fnmatch
import hashlib
import importlib
import json
import math
import os
import subprocess
import sys
import tempfile
import time
import traceback
import shutil
import collections

ROOT = os.path.dirname(os.path.dirname(os.path.abspath(__file__)))
REPLAYS = os.path.join(ROOT, 'replays')
# VERIF_SCRATCH redirects everything a run writes (evidence, new replays) away from /verif:
# used when a seeded change is evaluated in a scratch worktree, never by a registered command
_SCRATCH = os.environ.get('VERIF_SCRATCH')
EVIDENCE = os.path.join(_SCRATCH or ROOT, 'evidence')
OUT = os.path.join(_SCRATCH or ROOT, 'out')
KNOWN = os.path.join(ROOT, 'known_findings.json')


class Outcome:
    """What one generated case showed."""
    __slots__ = ('violations', 'nontrivial', 'classes', 'applicable', 'detail')

    def __init__(self):
        self.violations = []      # labels "clause@discriminator"
        self.nontrivial = False
        self.classes = []         # class labels for the histogram
        self.applicable = []      # clauses that were actually evaluated
        self.detail = {}          # label -> short text (numbers seen)

    def fail(self, label, text=None):
        if label not in self.violations:
            self.violations.append(label)
            if text is not None:
                self.detail[label] = str(text)[:400]

    def applies(self, clause):
        self.applicable.append(clause)

    def cls(self, label):
        self.classes.append(label)


class CutError(Exception):
    """Code under test raised where the property says it must not."""


def cut(out, label, fn, *a, expect=(), **k):
    """Run code under test.  An exception (other than `expect`, which is
    re-raised for the caller to handle) becomes the violation `label@raises:<Type>`
    and CutError is raised so the caller can abandon the case."""
    try:
        return fn(*a, **k)
    except expect:
        raise
    except CutError:
        raise
    except Exception as e:  # noqa
        tb = traceback.extract_tb(e.__traceback__)
        where = ''
        for fr in reversed(tb):
            if '/taurex/' in fr.filename:
                where = '%s:%s' % (os.path.basename(fr.filename), fr.name)
                break
        out.fail('%s@raises:%s:%s' % (label, type(e).__name__, where),
                 '%s: %s' % (type(e).__name__, e))
        raise CutError(label) from e


def canon(case):
    return json.dumps(case, sort_keys=True, separators=(',', ':'), default=_jd)


def _jd(o):
    import numpy as np
    if isinstance(o, np.ndarray):
        return o.tolist()
    if isinstance(o, (np.floating,)):
        return float(o)
    if isinstance(o, (np.integer,)):
        return int(o)
    if isinstance(o, (np.bool_,)):
        return bool(o)
    if isinstance(o, (set, frozenset, tuple)):
        return list(o)
    return repr(o)


def case_hash(case):
    return hashlib.sha1(canon(case).encode()).hexdigest()[:16]


def load_known():
    if not os.path.exists(KNOWN):
        return []
    with open(KNOWN) as f:
        return json.load(f).get('findings', [])


def match_known(known, pid, label):
    """Return the open known-finding entry matching this label, if any.
    `fixed` entries suppress nothing."""
    for k in known:
        if k.get('property') != pid or k.get('status') != 'open':
            continue
        if any(fnmatch.fnmatchcase(label, pat) for pat in k.get('labels', [])):
            return k
    return None


def slug(label):
    s = ''.join(c if c.isalnum() or c in '-_.' else '_' for c in label)
    return s[:100]


# ---------------------------------------------------------------------------

def _settings(n, shrink=False):
    from hypothesis import settings, Phase, HealthCheck
    phases = [Phase.generate] + ([Phase.shrink] if shrink else [])
    return settings(max_examples=n, database=None, deadline=None,
                    derandomize=False, report_multiple_bugs=False,
                    phases=phases, suppress_health_check=list(HealthCheck),
                    print_blob=False)


class Collector:
    def __init__(self, pid):
        self.pid = pid
        self.evaluations = 0
        self.nontrivial_hashes = set()
        self.classes = collections.Counter()
        self.applicable = collections.Counter()
        self.viol = {}            # label -> {'count', 'case', 'detail'}
        self.samples = []
        self.sample_nt = []
        self.harness_error = None

    def add(self, case, out, keep_sample=True):
        self.evaluations += 1
        for c in set(out.classes):
            self.classes[c] += 1
        for c in out.applicable:
            self.applicable[c] += 1
        if out.nontrivial:
            h = case_hash(case)
            if h not in self.nontrivial_hashes:
                self.nontrivial_hashes.add(h)
                if keep_sample and len(self.sample_nt) < 3:
                    self.sample_nt.append(json.loads(canon(case)))
        elif keep_sample and len(self.samples) < 1:
            self.samples.append(json.loads(canon(case)))
        for lab in out.violations:
            v = self.viol.get(lab)
            c = canon(case)
            if v is None:
                self.viol[lab] = {'count': 1, 'case': c,
                                  'detail': out.detail.get(lab, '')}
            else:
                v['count'] += 1
                if len(c) < len(v['case']):
                    v['case'] = c
                    v['detail'] = out.detail.get(lab, '')

    def to_json(self):
        return {
            'evaluations': self.evaluations,
            'nontrivial_hashes': sorted(self.nontrivial_hashes),
            'classes': dict(self.classes),
            'applicable': dict(self.applicable),
            'viol': self.viol,
            'samples': self.sample_nt + self.samples,
            'harness_error': self.harness_error,
        }


def merge(parts):
    m = {'evaluations': 0, 'nontrivial_hashes': set(), 'classes': collections.Counter(),
         'applicable': collections.Counter(), 'viol': {}, 'samples': [], 'harness_error': None}
    for p in parts:
        m['evaluations'] += p['evaluations']
        m['nontrivial_hashes'].update(p['nontrivial_hashes'])
        m['classes'].update(p['classes'])
        m['applicable'].update(p['applicable'])
        if len(m['samples']) < 5:
            m['samples'].extend(p['samples'][:2])
        if p.get('harness_error') and not m['harness_error']:
            m['harness_error'] = p['harness_error']
        for lab, v in p['viol'].items():
            w = m['viol'].get(lab)
            if w is None:
                m['viol'][lab] = dict(v)
            else:
                w['count'] += v['count']
                if len(v['case']) < len(w['case']):
                    w['case'] = v['case']
                    w['detail'] = v['detail']
    return m


def strata_of(mod):
    """Modules whose cases fall into parts declare STRATA = {part: weight}: the case budget is then split between the
    parts by weight and each part is generated by its own Hypothesis run (strategy(tier, part)).  Left to one top-level
    draw the share of a part varied between 3% and 20% from seed to seed (Hypothesis re-uses and mutates earlier
    examples), which made the detection of changes confined to one part a matter of the seed."""
    st_ = getattr(mod, 'STRATA', None)
    if not st_:
        return [(None, 1.0)]
    tot = float(sum(st_.values()))
    return [(k, v / tot) for k, v in st_.items()]


def run_generate(mod, tier, seed, n, col):
    """Pass 1: generate n cases, record everything, never fail."""
    import hypothesis
    from hypothesis import given
    for si, (stratum, share) in enumerate(strata_of(mod)):
        strat = mod.strategy(tier) if stratum is None else mod.strategy(tier, stratum)
        k = n if stratum is None else max(1, int(round(n * share)))

        @hypothesis.seed(seed if stratum is None else seed * 31 + si)
        @_settings(k)
        @given(strat)
        def t(case):
            if col.harness_error:
                return
            try:
                out = mod.check(case)
            except Exception:
                col.harness_error = ('check() raised on case %s\n%s'
                                     % (canon(case)[:2000], traceback.format_exc()))
                return
            col.add(case, out)
        t()


def run_shrink(mod, tier, seed, n, label, budget_s, stratum=None):
    """Pass 2: hypothesis search + shrink for one label.  Returns minimal case
    (as python object) or None."""
    import hypothesis
    from hypothesis import given
    import hypothesis.internal.conjecture.engine as eng
    eng.MAX_SHRINKING_SECONDS = budget_s
    strat = mod.strategy(tier) if stratum is None else mod.strategy(tier, stratum)
    last = {}

    @hypothesis.seed(seed)
    @_settings(n, shrink=True)
    @given(strat)
    def t(case):
        out = mod.check(case)
        if label in out.violations:
            last['case'] = json.loads(canon(case))
            raise AssertionError(label)
    try:
        t()
    except AssertionError:
        pass
    except Exception:
        pass
    return last.get('case')


def replay_files(pid):
    d = os.path.join(REPLAYS, pid)
    if not os.path.isdir(d):
        return []
    return sorted(os.path.join(d, f) for f in os.listdir(d) if f.endswith('.json'))


def run_replays(mod, col):
    """Replay tier: committed cases bypass hypothesis entirely."""
    n = 0
    for f in replay_files(mod.ID):
        with open(f) as fh:
            doc = json.load(fh)
        case = doc['case'] if isinstance(doc, dict) and 'case' in doc else doc
        try:
            out = mod.check(case)
        except Exception:
            col.harness_error = 'replay %s raised\n%s' % (f, traceback.format_exc())
            return n
        col.add(case, out, keep_sample=False)
        n += 1
    return n


def shard_main(mod, tier, seed, shard, nshards, outpath):
    total = mod.CASES[tier]
    n = max(1, total // nshards)
    col = Collector(mod.ID)
    s = seed * 1000 + shard if nshards > 1 else seed
    try:
        run_generate(mod, tier, s, n, col)
    except Exception:
        col.harness_error = traceback.format_exc()
    with open(outpath, 'w') as f:
        json.dump(col.to_json(), f)


def run_fuzz(pid, spec, seed):
    """atheris campaign(s) over the property's own strategy and oracle (vlib/fuzz.py), one subprocess per worker.
    Returns (info for the evidence file, result parts to merge).  A campaign that cannot run (atheris missing) or
    hits its wall-clock budget is reported as such and never counts as a violation."""
    deps = os.path.join(ROOT, '.deps')
    probe = subprocess.run([sys.executable, '-c', 'import sys; sys.path.append(%r); import atheris' % deps],
                           capture_output=True)
    if probe.returncode != 0:
        return {'status': 'skipped: atheris is not installed (setup_cmd installs it into .deps)'}, []
    workers = int(spec.get('workers', 4))
    runs = int(spec.get('runs', 20000))
    budget = int(spec.get('budget_s', 900))
    tmp = tempfile.mkdtemp(prefix='verif_fuzz_%s_' % pid)
    parts, infos = [], []
    try:
        procs = []
        for i in range(workers):
            outp = os.path.join(tmp, 'fuzz%d.json' % i)
            cmd = [sys.executable, os.path.join(ROOT, 'vlib', 'fuzz.py'), pid, outp, str(runs // workers), str(seed * 100 + i + 1)]
            procs.append((subprocess.Popen(cmd, cwd=ROOT, stdout=subprocess.DEVNULL, stderr=subprocess.DEVNULL), outp))
        deadline = time.time() + budget
        for p, outp in procs:
            try:
                p.wait(timeout=max(1.0, deadline - time.time()))
                ended = 'exit %s' % p.returncode
            except subprocess.TimeoutExpired:
                p.kill()
                p.wait()
                ended = 'stopped at the %d s budget (inconclusive beyond what was executed)' % budget
            if os.path.exists(outp):
                with open(outp) as f:
                    d = json.load(f)
                fi = d.pop('fuzz', {})
                fi['ended'] = ended
                infos.append(fi)
                parts.append(d)
            else:
                infos.append({'ended': ended, 'executions': 0})
    finally:
        shutil.rmtree(tmp, ignore_errors=True)
    return {'status': 'ran', 'engine': 'atheris (libFuzzer) through hypothesis fuzz_one_input; oracle = check(case)',
            'workers': infos, 'executions': sum(i.get('executions', 0) for i in infos)}, parts


def main(argv=None):
    ap = argparse.ArgumentParser()
    ap.add_argument('prop')
    ap.add_argument('--tier', default=os.environ.get('VERIF_TIER', 'quick'),
                    choices=['quick', 'thorough'])
    ap.add_argument('--replay')
    ap.add_argument('--shard')      # internal: "i/k:outfile"
    ap.add_argument('--cases', type=int)
    ap.add_argument('--no-shrink', action='store_true')
    args = ap.parse_args(argv)

    pid = args.prop.upper()
    seed = int(os.environ.get('VERIF_SEED', '1') or 1)
    os.environ.setdefault('PYTHONHASHSEED', '0')
    t0 = time.time()
    try:
        mod = importlib.import_module('vlib.props.' + pid.lower())
    except Exception:
        traceback.print_exc()
        print('HARNESS-ERROR property=%s import failed' % pid)
        return 2
    if args.cases:
        mod.CASES = dict(mod.CASES)
        mod.CASES[args.tier] = args.cases

    if args.shard:
        ik, outpath = args.shard.split(':', 1)
        i, k = ik.split('/')
        shard_main(mod, args.tier, seed, int(i), int(k), outpath)
        return 0

    known = load_known()

    if args.replay:
        with open(args.replay) as fh:
            doc = json.load(fh)
        case = doc['case'] if isinstance(doc, dict) and 'case' in doc else doc
        out = mod.check(case)
        bad = [l for l in out.violations if not match_known(known, pid, l)]
        for l in out.violations:
            print(('VIOLATION' if l in bad else 'KNOWN-FINDING:') +
                  ' property=%s %s %s' % (pid, l, out.detail.get(l, '')))
        if bad:
            print('VIOLATION property=%s replay=%s' % (pid, args.replay))
            return 1
        print('replay ok: no unlisted violation')
        return 0

    # --- replay tier -------------------------------------------------------
    rcol = Collector(pid)
    nrep = run_replays(mod, rcol)
    parts = [rcol.to_json()]

    # --- generation --------------------------------------------------------
    nshards = getattr(mod, 'SHARDS', {}).get(args.tier, 1 if args.tier == 'quick' else 16)
    if nshards <= 1:
        col = Collector(pid)
        try:
            run_generate(mod, args.tier, seed, mod.CASES[args.tier], col)
        except Exception:
            col.harness_error = traceback.format_exc()
        parts.append(col.to_json())
    else:
        tmp = tempfile.mkdtemp(prefix='verif_%s_' % pid)
        try:
            procs = []
            for i in range(nshards):
                outp = os.path.join(tmp, 'shard%d.json' % i)
                cmd = [sys.executable, os.path.join(ROOT, 'run.py'), pid, '--tier', args.tier,
                       '--shard', '%d/%d:%s' % (i, nshards, outp)]
                if args.cases:
                    cmd += ['--cases', str(args.cases)]
                procs.append((subprocess.Popen(cmd, cwd=ROOT, stdout=subprocess.PIPE,
                                               stderr=subprocess.STDOUT), outp))
            for p, outp in procs:
                o, _ = p.communicate()
                if p.returncode != 0 or not os.path.exists(outp):
                    parts.append({'evaluations': 0, 'nontrivial_hashes': [], 'classes': {},
                                  'applicable': {}, 'viol': {}, 'samples': [],
                                  'harness_error': 'shard failed rc=%s\n%s'
                                  % (p.returncode, o.decode(errors='replace')[-3000:])})
                else:
                    with open(outp) as f:
                        parts.append(json.load(f))
        finally:
            shutil.rmtree(tmp, ignore_errors=True)

    # --- coverage-guided extra (thorough tier, properties that declare FUZZ) ---------------
    fuzz_info = None
    if args.tier == 'thorough' and getattr(mod, 'FUZZ', None) and not os.environ.get('VERIF_NO_FUZZ'):
        fuzz_info, fparts = run_fuzz(pid, mod.FUZZ, seed)
        parts.extend(fparts)

    m = merge(parts)
    wall_gen = time.time() - t0

    # --- verdicts -----------------------------------------------------------
    status = 0
    new_labels = []
    known_seen = {}
    for lab, v in sorted(m['viol'].items()):
        k = match_known(known, pid, lab)
        if k is not None:
            known_seen.setdefault(k['id'], [k, 0])
            known_seen[k['id']][1] += v['count']
        else:
            new_labels.append(lab)

    for k in known:
        if k.get('property') == pid and k.get('status') == 'open':
            cnt = known_seen.get(k['id'], [k, 0])[1]
            print('KNOWN-FINDING: property=%s %s [%s; seen %d times in this run]'
                  % (pid, k['what'], k['id'], cnt))

    replay_paths = []
    if new_labels:
        os.makedirs(os.path.join(OUT, pid), exist_ok=True)
        budget = 20 if args.tier == 'quick' else 120
        for lab in new_labels[:8]:
            v = m['viol'][lab]
            case = json.loads(v['case'])
            small = None
            if not args.no_shrink and len(new_labels) <= 4:
                try:
                    n = min(mod.CASES[args.tier], 3000)
                    stratum = case.get(getattr(mod, 'STRATA_KEY', 'part')) if getattr(mod, 'STRATA', None) and isinstance(case, dict) else None
                    small = run_shrink(mod, args.tier, seed, n, lab, budget, stratum if stratum in getattr(mod, 'STRATA', {}) else None)
                except Exception:
                    small = None
            if small is not None and len(canon(small)) <= len(v['case']):
                case = small
            path = os.path.join(OUT, pid, '%s-seed%d.json' % (slug(lab), seed))
            with open(path, 'w') as f:
                json.dump({'property': pid, 'label': lab, 'detail': v['detail'],
                           'count': v['count'], 'seed': seed, 'tier': args.tier,
                           'case': case}, f, indent=1, default=_jd)
            replay_paths.append(path)
            print('violated clause %s (%d cases): %s' % (lab, v['count'], v['detail']))
            print('VIOLATION property=%s replay=%s' % (pid, path))
        status = 1

    # --- generator health ----------------------------------------------------
    health = []
    ev = max(1, m['evaluations'] - nrep)
    for cl, frac in getattr(mod, 'REQUIRED', {}).items():
        got = m['classes'].get(cl, 0) / ev
        # REQUIRED holds the fraction a healthy generator typically reaches; the alarm is raised at half of it, so that
        # seed-to-seed variation (measured with tools/health_audit.py) cannot turn a healthy run into an exit 2
        if got < 0.5 * frac:
            health.append('class %s reached by %.2f%% of cases (< %.2f%% required)'
                          % (cl, 100 * got, 50 * frac))

    nt = len(m['nontrivial_hashes'])
    evidence = {
        'property_id': pid,
        'tier': args.tier,
        'seed': seed,
        'level': 'exploration',
        'coverage': {
            'evaluations': m['evaluations'],
            'distinct_nontrivial': nt,
            'rule': mod.RULE,
            'samples': m['samples'][:5],
            'replayed_files': nrep,
            'shards': nshards,
            'class_histogram': dict(sorted(m['classes'].items())),
            'clauses_applicable': dict(sorted(m['applicable'].items())),
            'violated_labels': {l: {'count': v['count'], 'detail': v['detail'],
                                    'known': match_known(known, pid, l) is not None}
                                for l, v in sorted(m['viol'].items())},
            'generator_health': health,
            'fuzz_campaign': fuzz_info,
        },
        'assumptions': list(mod.ASSUMPTIONS),
        'wall_s': round(time.time() - t0, 2),
        'violations': len(new_labels),
    }
    os.makedirs(EVIDENCE, exist_ok=True)
    with open(os.path.join(EVIDENCE, pid + '.json'), 'w') as f:
        json.dump(evidence, f, indent=1, default=_jd)
        f.write('\n')

    if m['harness_error']:
        print('HARNESS-ERROR property=%s\n%s' % (pid, m['harness_error']))
        return 2 if status == 0 else status
    if health and status == 0:
        for h in health:
            print('HARNESS-ERROR property=%s generator: %s' % (pid, h))
        return 2
    if nt < 2 and status == 0:
        print('HARNESS-ERROR property=%s fewer than 2 non-trivial cases' % pid)
        return 2
    print('%s %s tier=%s seed=%d cases=%d nontrivial=%d replays=%d clauses=%d wall=%.1fs -> %s'
          % (pid, getattr(mod, 'TITLE', ''), args.tier, seed, m['evaluations'], nt, nrep,
             len(m['applicable']), time.time() - t0,
             'HELD' if status == 0 else 'VIOLATED'))
    return status


# ---------------------------------------------------------------------------
# numeric helpers shared by property modules

def close(a, b, rtol=1e-9, atol=0.0):
    """|a-b| <= atol + rtol*max(|a|,|b|) elementwise, NaN never close, inf==inf ok."""
    import numpy as np
    a = np.asarray(a, dtype=float)
    b = np.asarray(b, dtype=float)
    if a.shape != b.shape:
        try:
            a, b = np.broadcast_arrays(a, b)
        except ValueError:
            return False
    with np.errstate(all='ignore'):
        same_inf = (a == b)
        # an infinite value is close only to the same infinity (rtol * inf would otherwise swallow any difference)
        fin = np.isfinite(a) & np.isfinite(b)
        ok = fin & (np.abs(a - b) <= atol + rtol * np.maximum(np.abs(a), np.abs(b)))
    return bool(np.all(ok | same_inf))


def maxrel(a, b):
    import numpy as np
    a = np.asarray(a, dtype=float)
    b = np.asarray(b, dtype=float)
    with np.errstate(all='ignore'):
        d = np.abs(a - b) / np.maximum(np.maximum(np.abs(a), np.abs(b)), 1e-300)
        d = np.where(a == b, 0.0, d)
    if d.size == 0:
        return 0.0
    return float(np.nanmax(d)) if not np.all(np.isnan(d)) else float('nan')
