"""C12 — temperature profiles are finite, positive and bounded by their control values."""
import math
import os
import shutil
import tempfile
import numpy as np
from hypothesis import strategies as st
from vlib import strategies as S

from vlib.runner import Outcome, cut, CutError, close, maxrel
from vlib import ref

ID = 'C12'
TITLE = 'temperature profiles'
CASES = {'quick': 2000, 'thorough': 200000}
SHARDS = {'quick': 1, 'thorough': 16}
RULE = ('Generated: 2-120 layers on a log-spaced or arbitrary decreasing pressure grid and one of: Isothermal; '
        'NPoint with 0-6 interior nodes (explicit or default end pressures, smoothing window 0-100 %, slope '
        'limit), including the rejected classes (inverted pressure nodes, slope over the limit); temperature '
        'array with or without pressure points in either order, reversed or not; temperature file (generated '
        'text, column choice, delimiter, units, skipped rows); layer-correlated profile with default covariance '
        'and any correlation length; Guillot profile inside its documented bounds plus the rejected classes '
        '(zero opacities, negative temperatures).  Non-trivial = at least one interior node or a smoothing '
        'window of >=3 layers or a non-constant control set; distinct by case hash.'
        ' Every accepted profile is read three times and once more after re-initialising; the rejected N-point classes include a negative or zero interior pressure node, given at construction or set through its fitting parameter after a first use.')
ASSUMPTIONS = [
    'range clauses carry rtol 1e-9 (cumulative-sum moving average)',
    'Guillot reference: Guillot (2010) eq. 49 in the Line et al. (2012) eq. 19 form with E2(x) = exp(-x) - x E1(x) (scipy.special.exp1), compared where it is a finite positive number; surface gravity from G M / R^2 with typed constants',
    'smoothing window is a percentage of the layer count (0-100)',
    'for Guillot parameters outside the documented bounds but not in a listed rejected class nothing beyond agreement with the closed form is asserted',
]
RULE = RULE + ' ' + 'Also: Guillot faults arriving through the fitting parameter after a first valid use, Guillot profiles re-initialised on another pressure grid and planet, NPoint nodes as numpy arrays, a slope limit just above the steepest segment; cases stratified by kind. Round 9: the correlation length of the layer-correlated profile is moved through its fitting parameter after the first read and the profile read again.'
REQUIRED = {'rodgers:length-changed': 0.06, 'guillot:refused-point-then-repaired': 0.1, 'npoint:nodes-as-arrays': 0.04, 'slope-just-below-limit': 0.004, 'guillot-fault-set-after-first-use': 0.02, 'negative-node': 0.006, 'kind:npoint': 0.08, 'kind:guillot': 0.06, 'kind:array': 0.04, 'kind:file': 0.03, 'kind:rodgers': 0.04,
            'kind:isothermal': 0.02, 'rejected-class': 0.04}
# coverage-guided extra (thorough tier): pure-Python taurex modules on this property's path, instrumented by atheris
FUZZ = {'include': ['taurex.data.profiles.temperature'], 'runs': 40000, 'workers': 4}
MJUP = 1.2668653e17 / 6.6743e-11
RJUP = 71492000.0

tf = st.floats(30.0, 6000.0)


STRATA = {'npoint': 2, 'guillot': 2, 'array': 1, 'rodgers': 1, 'file': 1, 'isothermal': 1}
STRATA_KEY = 'kind'


@st.composite
def _case(draw, kind=None):
    kind = kind or draw(st.sampled_from(['npoint', 'guillot', 'array', 'rodgers', 'npoint', 'file', 'isothermal', 'guillot']))
    nl = draw(st.sampled_from([2, 3, 5, 7, 10, 11, 17, 24, 30, 49, 50, 64, 100, 120, 4, 9]))
    c = {'kind': kind, 'nlayers': nl, 'lpmax': draw(st.floats(2.0, 8.0)), 'decades': draw(st.floats(0.5, 12.0)),
         'grid': draw(st.sampled_from(['log', 'log', 'arbitrary'])),
         'steps': draw(st.lists(st.floats(0.01, 1.0), min_size=8, max_size=8))}
    if kind == 'isothermal':
        c['T'] = draw(tf)
    elif kind == 'npoint':
        k = draw(S.ints(0, 6))
        c['T_surface'], c['T_top'] = draw(tf), draw(tf)
        c['t_points'] = draw(st.lists(tf, min_size=k, max_size=k))
        inc = draw(st.lists(st.floats(0.05, 1.0), min_size=k + 1, max_size=k + 1))
        tot = sum(inc)
        acc, fr = 0.0, []
        for x in inc[:-1]:
            acc += x
            fr.append(0.98 - 0.96 * acc / tot)      # strictly decreasing, at least 0.96*0.05/7 apart
        c['p_fracs'] = fr
        c['ends'] = draw(st.sampled_from(['default', 'default', 'explicit', 'minus-one']))
        c['smooth'] = draw(st.sampled_from([10, 100, 0, 1, 5, 20, 33, 50, 100, 7.5, 3, 99]))
        c['fault'] = draw(st.sampled_from([None, 'nearly-equal', None, 'inverted', 'slope', 'negative-node', 'equal-controls', 'nearly-equal', 'negative-node', 'slope-below-limit', 'slope-below-limit']))
        c['late_fault'] = draw(st.booleans())
        c['pts_form'] = draw(st.sampled_from(['list', 'array', 'list', 'array']))
        c['limit'] = draw(st.floats(10.0, 5000.0))
        c['inv_at'] = draw(st.floats(0.0, 0.999))
        c['inv_equal'] = draw(st.booleans())
    elif kind == 'array':
        k = draw(st.sampled_from([nl, 2, 3, 5, 8]))
        c['T'] = draw(st.lists(tf, min_size=k, max_size=k))
        c['with_p'] = draw(st.booleans())
        c['p_order'] = draw(st.sampled_from(['boa-first', 'toa-first']))
        c['reverse'] = draw(st.booleans())
        c['pspan'] = [draw(st.floats(-0.3, 0.3)), draw(st.floats(0.7, 1.3))]
    elif kind == 'file':
        k = draw(S.ints(2, 12))
        c['T'] = draw(st.lists(tf, min_size=k, max_size=k))
        c['with_p'] = draw(st.booleans())
        c['skip'] = draw(S.ints(0, 2))
        c['delim'] = draw(st.sampled_from([None, ',', None]))
        c['punit'] = draw(st.sampled_from(['Pa', 'bar', 'Pa']))
        c['tcol'] = draw(S.ints(0, 2))
    elif kind == 'rodgers':
        c['T'] = draw(st.lists(tf, min_size=nl, max_size=nl))
        c['corr'] = draw(st.floats(0.01, 50.0))
        c['equal'] = draw(st.sampled_from([False, False, True]))
    else:
        c['T_irr'] = draw(st.floats(100.0, 4000.0))
        c['lk_ir'] = draw(st.floats(-10.0, 0.0))
        c['lk_v1'] = draw(st.floats(-10.0, 0.0))
        c['lk_v2'] = draw(st.floats(-10.0, 0.0))
        c['alpha'] = draw(st.floats(0.0, 1.0))
        c['T_int'] = draw(st.floats(0.0, 1000.0))
        c['mass'] = draw(st.floats(0.05, 10.0))
        c['radius'] = draw(st.floats(0.3, 2.5))
        c['fault'] = draw(st.sampled_from([None, None, None, 'kappa_ir=0', 'kappa_v1=0', 'kappa_v2=0', 'T_irr<0', 'T_int<0']))
        c['late_fault'] = draw(st.booleans())         # the unphysical value arrives through the fitting parameter after a first valid use
    return c


def strategy(tier, part=None):
    return _case(part)


def pressures(c):
    nl = c['nlayers']
    if c['grid'] == 'log':
        lv = np.logspace(c['lpmax'], c['lpmax'] - c['decades'], nl + 1)
        return np.sqrt(lv[:-1] * lv[1:])
    steps = np.resize(np.array(c['steps']), nl)
    lp = c['lpmax'] - np.concatenate([[0.0], np.cumsum(steps[:-1])]) * c['decades'] / max(np.sum(steps[:-1]), 1e-9)
    return 10.0 ** lp


def guillot_reference(c, P, g):
    from scipy.special import exp1
    k_ir, k1, k2 = 10.0 ** c['lk_ir'], 10.0 ** c['lk_v1'], 10.0 ** c['lk_v2']
    tau = k_ir * P / g

    def E2(x):
        with np.errstate(all='ignore'):
            return np.exp(-x) - x * exp1(x)

    def eta(gam):
        return 2.0 / 3.0 + 2.0 / (3.0 * gam) * (1.0 + (gam * tau / 2.0 - 1.0) * np.exp(-gam * tau)) + \
            2.0 * gam / 3.0 * (1.0 - tau ** 2 / 2.0) * E2(gam * tau)
    Ti, Tn, a = c['T_irr'], c['T_int'], c['alpha']
    with np.errstate(all='ignore'):
        T4 = 0.75 * Tn ** 4 * (2.0 / 3.0 + tau) + 0.75 * Ti ** 4 * (1 - a) * eta(k1 / k_ir) + 0.75 * Ti ** 4 * a * eta(k2 / k_ir)
        return T4 ** 0.25


def check(case):
    from taurex.exceptions import InvalidModelException
    from taurex.data import Planet
    from taurex.data.profiles.temperature import Isothermal, NPoint, Guillot2010, Rodgers2000, TemperatureFile
    from taurex.data.profiles.temperature.temparray import TemperatureArray
    out = Outcome()
    c = case
    kind = c['kind']
    out.cls('kind:' + kind)
    nl = c['nlayers']
    P = pressures(c)
    lo_p, hi_p = math.log10(P[-1]), math.log10(P[0])
    planet = Planet(planet_mass=c.get('mass', 1.0), planet_radius=c.get('radius', 1.0))
    controls = None
    expect_reject = False
    tmpdir = None
    nontriv = False
    try:
        if kind == 'isothermal':
            tp = cut(out, 'construct', Isothermal, T=c['T'])
            controls = [c['T']]
        elif kind == 'npoint':
            Tpts = list(c['t_points'])
            Ts, Tt = c['T_surface'], c['T_top']
            ppts = [10.0 ** (lo_p + f * (hi_p - lo_p)) for f in c['p_fracs']]
            fault = c['fault']
            inv_kw = None
            if fault == 'inverted':
                # invert one adjacent pair of pressure nodes, anywhere from the surface to the top
                full = [float(P[0]) * 1.5] + ppts + [float(P[-1]) / 1.5]
                j = int(c.get('inv_at', 0.5) * (len(full) - 1)) % (len(full) - 1)
                full[j + 1] = full[j] * (1.0 if c.get('inv_equal') else 1.7)
                # keep the rest ordered below the moved node where possible (only this pair is at fault)
                ppts = full[1:-1]
                inv_kw = {'P_surface': full[0], 'P_top': full[-1]}
                expect_reject = True
                out.cls('inverted-at:%s' % ('top' if j + 1 == len(full) - 1 else ('surface' if j == 0 else 'interior')))
            elif fault == 'negative-node' and ppts:
                # an interior node at a negative (or zero) pressure: the node pressures do not decrease
                j = int(c.get('inv_at', 0.5) * len(ppts)) % len(ppts)
                good_ppts = list(ppts)
                ppts = list(ppts)
                ppts[j] = 0.0 if c.get('inv_equal') else -ppts[j]
                expect_reject = True
                out.cls('negative-node')
            elif fault == 'equal-controls':
                Tpts = [Ts] * len(Tpts)
                Tt = Ts
            elif fault == 'nearly-equal':
                # controls within 0.5 % of each other: any smoothing artefact leaves the range
                Tpts = [Ts * (1.0 + 0.005 * (t - 30.0) / 5970.0) for t in Tpts]
                Tt = Ts * (1.0 + 0.005 * (Tt - 30.0) / 5970.0)
                out.cls('nearly-equal-controls')
            kw = {}
            if c['ends'] == 'explicit':
                kw = {'P_surface': float(P[0]) * 1.5, 'P_top': float(P[-1]) / 1.5}
            elif c['ends'] == 'minus-one':
                kw = {'P_surface': -1, 'P_top': -1}
            if inv_kw:
                kw = inv_kw
            limit = 9999999
            if fault in ('slope', 'slope-below-limit'):
                nodesP = [kw.get('P_surface', P[0]) if kw.get('P_surface', -1) > 0 else P[0]] + ppts + \
                    [kw.get('P_top', P[-1]) if kw.get('P_top', -1) > 0 else P[-1]]
                nodesT = [Ts] + Tpts + [Tt]
                slopes = [abs((nodesT[i + 1] - nodesT[i]) / (math.log10(nodesP[i + 1]) - math.log10(nodesP[i])))
                          for i in range(len(nodesP) - 1)]
                if max(slopes) > 0 and fault == 'slope':
                    limit = max(slopes) * 0.9
                    expect_reject = True
                elif max(slopes) > 0:
                    # a limit just above the steepest segment: a legal profile, to be accepted
                    limit = max(slopes) * 1.1
                    out.cls('slope-just-below-limit')
            late = None
            if fault == 'negative-node' and expect_reject and c.get('late_fault'):
                late = (j, ppts[j])
                ppts = good_ppts
                out.cls('fault-set-after-first-use')
            Tpts_given, ppts_given = Tpts, ppts
            if c.get('pts_form') == 'array' and len(Tpts) >= 1:
                # the interior nodes handed over as numpy arrays instead of lists: same numbers
                out.cls('npoint:nodes-as-arrays')
                Tpts_given, ppts_given = np.array(Tpts, dtype=float), np.array(ppts, dtype=float)
            tp = cut(out, 'construct', NPoint, T_surface=Ts, T_top=Tt, temperature_points=Tpts_given, pressure_points=ppts_given,
                     smoothing_window=c['smooth'], limit_slope=limit, **kw)
            if late is not None:
                tp.initialize_profile(planet, nl, P.copy())
                with np.errstate(all='ignore'):
                    cut(out, 'profile@npoint', lambda: np.asarray(tp.profile, dtype=float))
                tp.fitting_parameters()['P_point%d' % (late[0] + 1)][3](late[1])
            controls = [Ts] + Tpts + [Tt]
            out.cls('npoint:nodes=%d' % min(len(Tpts), 3))
            nontriv = len(Tpts) >= 1 or nl * c['smooth'] / 100.0 >= 3
        elif kind == 'array':
            Tarr = np.array(c['T'], dtype=float)
            pp = None
            if c['with_p']:
                a, b = c['pspan']
                lp = np.linspace(hi_p - a * (hi_p - lo_p), hi_p - b * (hi_p - lo_p), len(Tarr))   # BOA first
                pp = 10.0 ** lp
                if c['p_order'] == 'toa-first':
                    pp = pp[::-1]
            tp = cut(out, 'construct', TemperatureArray, tp_array=Tarr.copy(), p_points=pp, reverse=c['reverse'])
            controls = list(Tarr)
            nontriv = len(set(controls)) > 1
        elif kind == 'file':
            tmpdir = tempfile.mkdtemp(prefix='verif_c12_')
            fn = os.path.join(tmpdir, 'tp.dat')
            Tarr = np.array(c['T'], dtype=float)
            k = len(Tarr)
            lp = np.linspace(hi_p + 0.2, lo_p - 0.2, k)
            pfac = {'Pa': 1.0, 'bar': 1e-5}[c['punit']]
            ncols = 4
            tcol = c['tcol']
            pcol = (tcol + 1) % ncols
            sep = c['delim'] or ' '
            with open(fn, 'w') as f:
                for _ in range(c['skip']):
                    f.write('# header line, not, data\n' if False else 'header header header header\n'.replace(' ', sep))
                for i in range(k):
                    row = ['%.17e' % (7.0 + i)] * ncols
                    row[tcol] = '%.17e' % Tarr[i]
                    row[pcol] = '%.17e' % (10.0 ** lp[i] * pfac)
                    f.write(sep.join(row) + '\n')
            kw = dict(filename=fn, skiprows=c['skip'], temp_col=tcol, delimiter=c['delim'])
            if c['with_p']:
                kw.update(press_col=pcol, press_units=c['punit'])
            elif c['delim'] is not None:
                # without a pressure column the reader does not take a delimiter (single-column files)
                with open(fn, 'w') as f:
                    for _ in range(c['skip']):
                        f.write('header\n')
                    for i in range(k):
                        f.write('%.17e\n' % Tarr[i])
                kw.update(temp_col=0)
            tp = cut(out, 'construct@file', TemperatureFile, **kw)
            controls = list(Tarr)
            nontriv = len(set(controls)) > 1
        elif kind == 'rodgers':
            Tl = [c['T'][0]] * nl if c['equal'] else list(c['T'])
            tp = cut(out, 'construct', Rodgers2000, temperature_layers=Tl, correlation_length=c['corr'])
            controls = Tl
            nontriv = len(set(controls)) > 1
        else:
            vals = dict(T_irr=c['T_irr'], kappa_irr=10.0 ** c['lk_ir'], kappa_v1=10.0 ** c['lk_v1'],
                        kappa_v2=10.0 ** c['lk_v2'], alpha=c['alpha'], T_int=c['T_int'])
            fault = c['fault']
            glate = None
            if fault:
                expect_reject = True
                good_vals = dict(vals)
                if fault == 'kappa_ir=0':
                    vals['kappa_irr'] = 0.0
                elif fault == 'kappa_v1=0':
                    vals['kappa_v1'] = 0.0
                elif fault == 'kappa_v2=0':
                    vals['kappa_v2'] = 0.0
                elif fault == 'T_irr<0':
                    vals['T_irr'] = -vals['T_irr']
                else:
                    vals['T_int'] = -max(vals['T_int'], 1.0)
                if c.get('late_fault'):
                    key = {'kappa_ir=0': 'kappa_irr', 'kappa_v1=0': 'kappa_v1', 'kappa_v2=0': 'kappa_v2', 'T_irr<0': 'T_irr'}.get(fault, 'T_int')
                    glate = ({'T_int': 'T_int_guillot'}.get(key, key), vals[key])
                    vals = good_vals
                    out.cls('guillot-fault-set-after-first-use')
            try:
                tp = cut(out, 'construct', Guillot2010, expect=(InvalidModelException,), **vals)
            except InvalidModelException:
                out.cls('rejected-class')
                out.applies('rejects-unphysical')
                if not expect_reject or glate is not None:
                    out.fail('rejects-unphysical@guillot,valid-rejected', 'valid parameters rejected at construction: %s' % vals)
                out.nontrivial = True
                return out
            nontriv = True
            if glate is not None:
                # a retrieval writes parameters into a profile that has already been used
                cut(out, 'initialize_profile', tp.initialize_profile, planet, nl, P.copy())
                with np.errstate(all='ignore'):
                    cut(out, 'profile@guillot', lambda: np.asarray(tp.profile, dtype=float))
                cut(out, 'fitting-parameter', tp.fitting_parameters()[glate[0]][3], glate[1])
        # ---- evaluate -------------------------------------------------------------------------
        cut(out, 'initialize_profile', tp.initialize_profile, planet, nl, P.copy())
        try:
            with np.errstate(all='ignore'):
                T = cut(out, 'profile@%s' % kind, lambda: np.asarray(tp.profile, dtype=float), expect=(InvalidModelException,))
            rejected = False
        except InvalidModelException:
            rejected = True
    except CutError:
        return out
    finally:
        if tmpdir:
            shutil.rmtree(tmpdir, ignore_errors=True)
    if expect_reject:
        out.cls('rejected-class')
        out.applies('rejects-unphysical')
        if not rejected:
            out.fail('rejects-unphysical@%s,%s%s' % (kind, c.get('fault'), ',late' if kind == 'guillot' and c.get('late_fault') else ''),
                     'unphysical parameters gave a profile (min %r) instead of an invalid-model error' % float(np.nanmin(T)))
        out.nontrivial = True
        return out
    if rejected:
        out.applies('accepts-physical')
        out.fail('accepts-physical@' + kind, 'valid parameters rejected as an invalid model')
        return out
    out.applies('one-per-layer')
    if T.shape != (nl,):
        out.fail('one-per-layer@' + kind, 'shape %s for %d layers' % (T.shape, nl))
        return out
    # the profile is a function of the current parameters: reading it again (the forward model, avg_T and
    # write() all read it), also after re-initialising on the same grid, returns the same temperatures
    out.applies('repeatable')
    try:
        with np.errstate(all='ignore'):
            for step in ('second-read', 'third-read', 're-initialised'):
                if step == 're-initialised':
                    cut(out, 'initialize_profile', tp.initialize_profile, planet, nl, P.copy())
                Tn = cut(out, 'profile@%s' % kind, lambda: np.asarray(tp.profile, dtype=float))
                if Tn.shape != T.shape or not np.array_equal(Tn, T):
                    out.fail('repeatable@%s,%s' % (kind, step), 'first read [%r, %r], %s [%r, %r]'
                             % (float(T.min()), float(T.max()), step, float(np.nanmin(Tn)), float(np.nanmax(Tn))))
                    break
    except CutError:
        return out
    if kind == 'guillot':
        g = ref.G_NEWTON * c['mass'] * MJUP / (c['radius'] * RJUP) ** 2
        want = guillot_reference(c, P, g)
        good = np.isfinite(want) & (want > 0)
        out.applies('guillot-closed-form')
        if np.any(good) and not close(T[good], want[good], rtol=1e-8):
            out.fail('guillot-closed-form', 'max rel %.2e' % maxrel(T[good], want[good]))
        out.applies('finite-positive')
        if np.any(good & ~(np.isfinite(T) & (T > 0))):
            out.fail('finite-positive@guillot', 'non-finite or non-positive where the closed form is a positive number')
        # ---- history: a sampled point that is refused (another infra-red opacity together with a negative irradiation
        # temperature; the caller catches the invalid-model error), then the temperature is put right and the same object read
        # again: the closed form for the parameters now in force
        try:
            fpar = tp.fitting_parameters()
            k_new = 10.0 ** c['lk_ir'] * 1.7
            fpar['kappa_irr'][3](k_new)
            fpar['T_irr'][3](-abs(c['T_irr']) - 1.0)
            refused = False
            try:
                with np.errstate(all='ignore'):
                    np.asarray(tp.profile, dtype=float)
            except InvalidModelException:
                refused = True
            fpar['T_irr'][3](c['T_irr'])
            if refused:
                out.cls('guillot:refused-point-then-repaired')
                with np.errstate(all='ignore'):
                    T3 = cut(out, 'profile@guillot,after-refused-point', lambda: np.asarray(tp.profile, dtype=float), expect=(InvalidModelException,))
                c3 = dict(c, lk_ir=math.log10(k_new))
                want3 = guillot_reference(c3, P, g)
                good3 = np.isfinite(want3) & (want3 > 0)
                out.applies('guillot-closed-form')
                if T3.shape == want3.shape and np.any(good3) and not close(T3[good3], want3[good3], rtol=1e-8):
                    out.fail('guillot-closed-form@after-refused-point', 'after a refused point and its repair: max rel %.2e' % maxrel(T3[good3], want3[good3]))
            fpar['kappa_irr'][3](10.0 ** c['lk_ir'])
            with np.errstate(all='ignore'):
                np.asarray(tp.profile, dtype=float)          # back where the history started: evaluated at the drawn parameters
        except (CutError, InvalidModelException):
            pass
        # ---- history: the same profile object initialised again on another pressure grid of the same layer count and a
        # planet of other gravity (a retrieval moving the pressure range / the planet): the closed form on the NEW inputs
        try:
            shift = 0.7 + 1.1 * (c['lk_v1'] - math.floor(c['lk_v1']))
            P2 = P * 10.0 ** (shift if c['lk_v2'] - math.floor(c['lk_v2']) > 0.5 else -shift)
            planet2 = Planet(planet_mass=c['mass'] * 2.5, planet_radius=c['radius'] * 0.8)
            cut(out, 'initialize_profile', tp.initialize_profile, planet2, nl, P2.copy())
            with np.errstate(all='ignore'):
                T2 = cut(out, 'profile@guillot,regridded', lambda: np.asarray(tp.profile, dtype=float), expect=(InvalidModelException,))
            g2 = ref.G_NEWTON * c['mass'] * 2.5 * MJUP / (c['radius'] * 0.8 * RJUP) ** 2
            want2 = guillot_reference(c, P2, g2)
            good2 = np.isfinite(want2) & (want2 > 0)
            out.applies('guillot-closed-form')
            if T2.shape == want2.shape and np.any(good2) and not close(T2[good2], want2[good2], rtol=1e-8):
                out.fail('guillot-closed-form@regridded', 'after re-initialising on another grid and planet: max rel %.2e' % maxrel(T2[good2], want2[good2]))
        except (CutError, InvalidModelException):
            pass
        out.nontrivial = True
        return out
    out.applies('finite-positive')
    if not np.all(np.isfinite(T)) or np.any(T <= 0):
        out.fail('finite-positive@' + kind, 'range [%r, %r]' % (float(np.nanmin(T)), float(np.nanmax(T))))
        return out
    lo, hi = min(controls), max(controls)
    out.applies('within-controls')
    if np.any(T < lo * (1 - 1e-9)) or np.any(T > hi * (1 + 1e-9)):
        out.fail('within-controls@' + kind, 'profile range [%r, %r] leaves the control range [%r, %r]' % (float(T.min()), float(T.max()), lo, hi))
    if lo == hi:
        out.cls('equal-controls')
        out.applies('constant-when-equal')
        if not close(T, lo * np.ones(nl), rtol=1e-12):
            out.fail('constant-when-equal@' + kind, 'range [%r,%r] for constant controls %r' % (float(T.min()), float(T.max()), lo))
    if kind == 'rodgers':
        # ---- history: the correlation length moved through its fitting parameter on the same object (what a retrieval fitting
        # it does), profile read again: still inside the range of the layer temperatures, still the constant for equal ones
        try:
            h2 = c['corr'] * 4.3 if c['corr'] < 5.0 else c['corr'] / 4.3
            tp.fitting_parameters()['correlation_length'][3](h2)
            out.cls('rodgers:length-changed')
            with np.errstate(all='ignore'):
                T2 = cut(out, 'profile@rodgers,length-changed', lambda: np.asarray(tp.profile, dtype=float))
            out.applies('within-controls')
            if T2.shape != (nl,) or not np.all(np.isfinite(T2)) or np.any(T2 < lo * (1 - 1e-9)) or np.any(T2 > hi * (1 + 1e-9)):
                out.fail('within-controls@rodgers,length-changed', 'correlation length %r -> %r: profile range [%r, %r] leaves the control range [%r, %r]'
                         % (c['corr'], h2, float(np.nanmin(T2)), float(np.nanmax(T2)), lo, hi))
            elif lo == hi and not close(T2, lo * np.ones(nl), rtol=1e-12):
                out.fail('constant-when-equal@rodgers,length-changed', 'range [%r,%r] for constant layers %r' % (float(T2.min()), float(T2.max()), lo))
        except CutError:
            pass
    out.nontrivial = bool(nontriv)
    return out
