"""C14 — opacity / CIA files of every supported format load to the same physical table."""
import math
import os
import pickle
import re
import shutil
import tempfile
import numpy as np
from hypothesis import strategies as st
from vlib import strategies as S

from vlib.runner import Outcome, cut, CutError, close, maxrel
from vlib import synth, ref

ID = 'C14'
TITLE = 'file formats and caches'
CASES = {'quick': 250, 'thorough': 16000}
SHARDS = {'quick': 1, 'thorough': 16}
RULE = ('Generated: one table (1-3 pressures x 1-3 temperatures x 2-5 wavenumbers, magnitudes 1e-40..1, pressure '
        'unit bar / Pa / kPa / mbar) written as TauREx pickle, HDF5 (declared unit) and Exo-Transmit text; a '
        'k-table (1-4 quadrature points) as pickle and HDF5; a CIA table as pickle .db and as HITRAN .cia text '
        'with one or two wavenumber ranges and per-range temperature subsets; file names in each reader\'s own '
        'convention with plain or isotopologue molecule names; and a history of cache operations (set path, get, '
        'set_interpolation, clear_cache, second path with a different table, add_opacity).  Non-trivial = table '
        'not constant along any axis and a history containing a mode change after a first load; distinct by hash.'
        ' HITRAN files include two ranges whose wavenumber points interleave (overlapping spans).')
ASSUMPTIONS = [
    'units: pickle pressures in bar, HDF5 pressures in the declared unit, Exo-Transmit pressures in bar / wavelengths in metres / cross-sections in m2 with the reader\'s documented +1e-60 floor; HITRAN coefficients in cm5 (x1e-10 to SI); reference values are the GENERATED table in SI through the C04 reference interpolation (rtol 1e-9)',
    'sanitised name re-implemented from the docstring of sanitize_molecule_string: element symbols with their counts, everything else dropped; names outside each reader\'s naming convention (line-list tags glued to the molecule) are not generated',
    'HITRAN gaps: master temperature grid = union over ranges; inside a range\'s own temperature span linear interpolation, outside zero',
    'HDF5 cross-section files identify the molecule by their mol_name dataset (as written by ExoMol), which is generated already sanitised',
]
RULE = RULE + ' ' + 'Also: CIA tables of 3-5 temperatures with bands leaving out interior temperatures and noise entries below zero next to the gap, band ranges spelt differently from block to block, a request for a molecule the configured path does not hold before the path is moved on; cases stratified by part.'
REQUIRED = {'cia:range-spelt-differently': 0.04, 'request-while-absent': 0.03, 'ktable:descending-wavenumbers': 0.03, 'cia:gap-inside-band': 0.01, 'cia:negative-in-gapped-band': 0.006, 'cia:ranges-listed-descending': 0.01, 'cia:overlapping-ranges': 0.006, 'part:xsec': 0.1, 'part:ktable': 0.05, 'part:cia': 0.05, 'part:cache': 0.1}
# coverage-guided extra (thorough tier): pure-Python taurex modules on this property's path, instrumented by atheris
FUZZ = {'include': ['taurex.opacity', 'taurex.cia', 'taurex.cache', 'taurex.util.util'], 'runs': 8000, 'workers': 4}

UNITS = {'bar': 1e5, 'Pa': 1.0, 'kPa': 1000.0, 'mbar': 100.0, 'Torr': 101325.0 / 760.0}      # 1 Torr = 1/760 standard atmosphere, by definition
NAMES = [('H2O', '1H2-16O'), ('CO2', '12C-16O2'), ('CH4', '12C-1H4'), ('NH3', 'NH3'), ('CO', 'CO'), ('TiO', '48Ti-16O')]


@st.composite
def _table(draw, nwn=None):
    nP, nT = draw(S.ints(1, 3)), draw(S.ints(1, 3))
    nW = nwn or draw(S.ints(2, 5))
    n = nP * nT * nW
    return {'nP': nP, 'nT': nT, 'nW': nW, 'T0': draw(st.floats(100.0, 1500.0)),
            'dT': draw(st.lists(st.floats(50.0, 900.0), min_size=2, max_size=2)),
            'lP0': draw(st.floats(-6.0, 1.0)), 'dlP': draw(st.lists(st.floats(0.5, 3.0), min_size=2, max_size=2)),
            'wn0': draw(st.floats(50.0, 5000.0)), 'dwn': draw(st.floats(0.5, 500.0)),
            'base': draw(st.floats(-36.0, -2.0)), 'delta': draw(st.lists(st.floats(0.0, 4.0), min_size=n, max_size=n)),
            'unit': draw(st.sampled_from(['bar', 'Pa', 'kPa', 'mbar', 'Torr']))}


STRATA = {'cia': 2, 'xsec': 2, 'cache': 2, 'ktable': 1.5}


@st.composite
def _case(draw, part=None):
    part = part or draw(S.pick(['cia', 'xsec', 'cache', 'ktable', 'cia', 'xsec', 'cache']))
    c = {'part': part, 'name': draw(S.ints(0, len(NAMES) - 1)), 'iso': draw(st.booleans()),
         'table': draw(_table()), 'tp': [[draw(st.floats(-0.3, 1.3)), draw(st.floats(-0.3, 1.3))] for _ in range(4)],
         'mode': draw(st.sampled_from(['linear', 'exp']))}
    if part == 'ktable':
        ng = draw(S.ints(1, 4))
        c['weights'] = draw(st.lists(st.floats(0.05, 1.0), min_size=ng, max_size=ng))
        c['gfac'] = draw(st.lists(st.floats(-1.0, 1.0), min_size=ng, max_size=ng))
        c['kdesc'] = draw(st.sampled_from([True, False, True]))
    if part == 'cia':
        c['table'] = draw(_table(nwn=draw(S.ints(4, 7))))      # room for two wavenumber ranges
        c['pair'] = draw(st.sampled_from(['H2-H2', 'H2-He', 'N2-N2', 'CO2-CO2']))
        c['split'] = draw(st.sampled_from([True, False, True, True]))
        c['interleave'] = draw(st.sampled_from([True, False, True]))
        c['ranges_reversed'] = draw(st.booleans())
        c['subset'] = draw(st.lists(st.booleans(), min_size=3, max_size=3))
        # more temperatures than the opacity tables, so that a band can leave out one or two INSIDE its own span
        c['cia_nT'] = draw(st.sampled_from([4, 5, None, 3, None]))
        c['cia_dT'] = draw(st.lists(st.floats(50.0, 600.0), min_size=4, max_size=4))
        c['subset5'] = draw(st.sampled_from([[True, False, True, True, True], [True, False, False, True, True], [False, True, False, True, False],
                                             [True, True, False, True, False], [True, True, True, True, True], [False, False, True, False, True]])) \
            if draw(S.ints(0, 2)) else draw(st.lists(st.booleans(), min_size=5, max_size=5))
        c['keep_ends'] = draw(st.booleans())
        c['neg_gap'] = [draw(st.sampled_from([True, True, False])), draw(S.ints(0, 6)), draw(st.booleans())]
        c['negative'] = draw(st.booleans())
        # further noise entries below zero anywhere in the table (also next to a temperature a band does not tabulate)
        c['neg_at'] = draw(st.lists(st.tuples(S.ints(0, 11), S.ints(0, 11)), min_size=0, max_size=4))
        c['block_order'] = draw(st.sampled_from(['descending', 'ascending', 'rotated']))
        # the header of every temperature block spells the wavenumber range of its band; the same range may be spelt
        # differently from block to block (20.000 / 20.0 / 2.000000E+01): the spelling carries no meaning
        c['hdr_forms'] = draw(st.sampled_from([None, [0, 1, 2], None, [2, 0, 1], [1, 1, 0]]))
    if part == 'cache':
        pool = st.sampled_from(['get', 'set_interp', 'get', 'clear', 'path_b', 'path_a', 'add', 'get', 'memory'])
        # every history contains a load, a mode change and a further request somewhere
        c['ops'] = draw(st.lists(pool, max_size=5)) + ['get', 'set_interp'] + draw(st.lists(st.sampled_from(['path_b', 'path_a']), max_size=1)) + \
            ['get'] + draw(st.lists(pool, max_size=5))
        c['fmt'] = draw(st.sampled_from(['pickle', 'hdf5', 'exo']))
        # a request made while the configured path does not hold the molecule (it fails), before the path is moved on
        if draw(S.ints(0, 2)) == 0:
            c['ops'] = ['path_e', 'get'] + draw(st.lists(st.sampled_from(['path_a', 'path_b']), min_size=1, max_size=1)) + c['ops']
    return c


def strategy(tier, part=None):
    return _case(part)


def arrays(t, unit_pa=None):
    Tg = t['T0'] + np.concatenate([[0.0], np.cumsum(t['dT'])])[:t['nT']]
    lP = t['lP0'] + np.concatenate([[0.0], np.cumsum(t['dlP'])])[:t['nP']]
    wn = t['wn0'] + t['dwn'] * np.arange(t['nW'])
    tab = 10.0 ** (t['base'] + np.array(t['delta'], dtype=float).reshape(t['nP'], t['nT'], t['nW']))
    u = UNITS[t['unit']] if unit_pa is None else unit_pa
    P_unit = 10.0 ** lP                       # numbers as stored in the file, in the file's unit
    return Tg, P_unit, P_unit * u, wn, tab


def sanitize_ref(name):
    return ''.join(a + b for a, b in re.findall(r'([A-Z][a-z]?)([0-9]*)', name))


def write_pickle(path, wn, Tg, P_bar, tab):
    with open(path, 'wb') as f:
        pickle.dump({'wno': np.array(wn), 't': np.array(Tg), 'p': np.array(P_bar), 'xsecarr': np.array(tab), 'name': 'x'}, f)


def write_hdf5(path, wn, Tg, P_unit, unit, tab, molname):
    import h5py
    with h5py.File(path, 'w') as f:
        f['bin_edges'] = np.array(wn)
        f['t'] = np.array(Tg)
        d = f.create_dataset('p', data=np.array(P_unit))
        d.attrs['units'] = unit
        f['xsecarr'] = np.array(tab)
        f['mol_name'] = np.array([molname.encode()])
        f['key_iso_ll'] = np.array([b'verif'])


def write_exo(path, wn, Tg, P_bar, tab_cm2):
    with open(path, 'w') as f:
        f.write(' '.join('%.17e' % t for t in Tg) + '\n')
        f.write(' '.join('%.17e' % p for p in P_bar) + '\n')
        # wavelength (m) descending wavenumber order is what real files have; any order must do
        for k in range(len(wn) - 1, -1, -1):
            f.write('%.17e\n' % (1e-2 / wn[k]))
            for ip in range(len(P_bar)):
                f.write('%.17e ' % P_bar[ip] + ' '.join('%.17e' % (tab_cm2[ip, it, k] / 1e4) for it in range(len(Tg))) + '\n')


def points(c, Tg, P_pa):
    pts = []
    for a, b in c['tp']:
        T = Tg[0] + a * max(Tg[-1] - Tg[0], 100.0)
        lp = math.log10(P_pa[0]) + b * max(math.log10(P_pa[-1]) - math.log10(P_pa[0]), 1.0)
        if T < Tg[0] and abs(lp - math.log10(P_pa[0])) < 1e-6:
            # the documented zero corner (T < Tmin and P < Pmin) makes the function discontinuous at P = Pmin; a unit
            # round trip (kPa -> bar -> Pa) moves the loaded Pmin by an ulp, so a query within an ulp of it may fall on
            # either side.  The corner itself is judged in C04; here the query is kept clearly inside.
            lp = math.log10(P_pa[0]) + 1e-3
        pts.append((max(T, 10.0), 10.0 ** lp))
    return pts


def check_xsec(out, c, tmp):
    from taurex.opacity.pickleopacity import PickleOpacity
    from taurex.opacity.hdf5opacity import HDF5Opacity
    from taurex.opacity.exotransmit import ExoTransmitOpacity
    from taurex.cache import OpacityCache
    t = c['table']
    plain, iso = NAMES[c['name']]
    fname = iso if c['iso'] else plain
    want_name = sanitize_ref(fname)
    Tg, P_unit, P_pa, wn, tab = arrays(t)
    objs = {}
    # pickle stores bar
    p1 = os.path.join(tmp, '%s.R15000.TauREx.pickle' % fname)
    write_pickle(p1, wn, Tg, P_pa / 1e5, tab)
    objs['pickle'] = cut(out, 'load@pickle', PickleOpacity, p1, c['mode'])
    p2 = os.path.join(tmp, '%s.h5' % fname)
    write_hdf5(p2, wn, Tg, P_unit, t['unit'], tab, want_name)
    objs['hdf5'] = cut(out, 'load@hdf5,%s' % t['unit'], HDF5Opacity, p2, c['mode'], True)
    p3 = os.path.join(tmp, 'opac%s.dat' % fname)
    write_exo(p3, wn, Tg, P_pa / 1e5, tab)
    objs['exo'] = cut(out, 'load@exo', ExoTransmitOpacity, p3, c['mode'])
    vals = {}
    for fmt, op in objs.items():
        out.applies('grids')
        if not close(np.asarray(op.pressureGrid, dtype=float), P_pa, rtol=1e-12) or \
                not close(np.asarray(op.temperatureGrid, dtype=float), Tg, rtol=1e-15) or \
                not close(np.asarray(op.wavenumberGrid, dtype=float), wn, rtol=1e-12):
            out.fail('grids@%s%s' % (fmt, ',' + t['unit'] if fmt == 'hdf5' else ''),
                     'pressure (Pa) / temperature / ascending wavenumber grid differ from what was written')
            continue
        xg = np.asarray(op.xsecGrid[...], dtype=float)
        out.applies('axes')
        if xg.shape != tab.shape or not close(xg, tab, rtol=1e-12, atol=2e-56):
            out.fail('axes@' + fmt, 'table is not oriented (pressure, temperature, wavenumber) as written')
            continue
        vals[fmt] = []
        for T, P in points(c, Tg, P_pa):
            with np.errstate(all='ignore'):
                v = np.asarray(cut(out, 'opacity@' + fmt, op.opacity, T, P), dtype=float)
            want = ref.interp_xsec_ref(tab, list(Tg), list(P_pa), T, P, c['mode'])
            out.applies('si-values')
            if v.shape != want.shape or not close(v, want, rtol=1e-9, atol=3e-60 + 1e-13 * float(want.max())):
                out.fail('si-values@%s,%s' % (fmt, c['mode']), 'T=%g P=%g Pa: %s, reference %s' % (T, P, v[:3], want[:3]))
            vals[fmt].append(v)
    # discovery through the cache: name is the sanitised one
    for fmt, fn in (('pickle', p1), ('hdf5', p2), ('exo', p3)):
        d = os.path.join(tmp, 'only_' + fmt)
        os.makedirs(d)
        shutil.copy(fn, d)
        synth.reset_world()
        oc = OpacityCache()
        cut(out, 'set_opacity_path', oc.set_opacity_path, d)
        out.applies('sanitised-name')
        found = cut(out, 'find_list_of_molecules@' + fmt, oc.find_list_of_molecules)
        if want_name not in found:
            out.fail('sanitised-name@%s,%s' % (fmt, 'iso' if c['iso'] else 'plain'), 'file %s: molecules found %s, expected %s'
                     % (os.path.basename(fn), sorted(found), want_name))
            continue
        got = cut(out, 'cache-get@' + fmt, oc.__getitem__, want_name)
        if getattr(got, 'moleculeName', None) != want_name and fmt != 'exo':
            out.fail('sanitised-name@%s,object' % fmt, 'served object calls itself %r' % got.moleculeName)
    synth.reset_world()
    span = np.ptp(np.log10(tab), axis=0).max() > 0 if tab.shape[0] > 1 else False
    return bool(tab.shape[0] > 1 and tab.shape[1] > 1 and np.all([np.ptp(tab, axis=a).max() > 0 for a in range(3)]))


def check_ktable(out, c, tmp):
    from taurex.opacity.ktables.picklektable import PickleKTable
    from taurex.opacity.ktables.hdfktable import HDF5KTable
    import h5py
    t = c['table']
    plain, iso = NAMES[c['name']]
    Tg, P_unit, P_pa, wn, tab = arrays(t)
    w = np.array(c['weights'], dtype=float)
    w = w / w.sum()
    k = tab[..., None] * (10.0 ** np.array(c['gfac'], dtype=float))[None, None, None, :]
    if c.get('kdesc'):
        # the table is stored in wavelength order (wavenumbers descending): axes stay oriented as in the file, every
        # coefficient still belongs to its own bin and quadrature point
        out.cls('ktable:descending-wavenumbers')
        wn = wn[::-1].copy()
        k = k[:, :, ::-1, :].copy()
    p1 = os.path.join(tmp, '%s.R100.ktable.TauREx.pickle' % plain)
    with open(p1, 'wb') as f:
        pickle.dump({'bin_centers': wn, 'ngauss': len(w), 't': Tg, 'p': P_pa / 1e5, 'kcoeff': k, 'weights': w, 'name': plain}, f)
    p2 = os.path.join(tmp, '%s_R100_verif.h5' % plain)
    with h5py.File(p2, 'w') as f:
        f['bin_centers'] = wn
        f['bin_edges'] = wn
        f['ngauss'] = len(w)
        f['t'] = Tg
        d = f.create_dataset('p', data=P_unit)
        d.attrs['units'] = t['unit']
        f['kcoeff'] = k
        f['weights'] = w
        f['mol_name'] = np.array([plain.encode()])
        f['key_iso_ll'] = np.array([b'verif'])
    a = cut(out, 'load@ktable-pickle', PickleKTable, p1, c['mode'])
    b = cut(out, 'load@ktable-hdf5,%s' % t['unit'], HDF5KTable, p2, c['mode'])
    for fmt, op in (('ktable-pickle', a), ('ktable-hdf5', b)):
        out.applies('grids')
        if not close(np.asarray(op.pressureGrid, dtype=float), P_pa, rtol=1e-12) or \
                not np.array_equal(np.asarray(op.wavenumberGrid, dtype=float), wn) or \
                not close(np.asarray(op.weights, dtype=float), w, rtol=1e-15) or op.moleculeName != plain:
            out.fail('grids@' + fmt, 'pressure (Pa) / weights / molecule name differ from what was written')
            continue
        for T, P in points(c, Tg, P_pa):
            with np.errstate(all='ignore'):
                v = np.asarray(cut(out, 'opacity@' + fmt, op.opacity, T, P), dtype=float)
            want = np.stack([ref.interp_xsec_ref(k[..., g], list(Tg), list(P_pa), T, P, c['mode']) for g in range(len(w))], axis=-1)
            out.applies('si-values')
            if v.shape != want.shape or not close(v, want, rtol=1e-9, atol=1e-13 * float(want.max()) + 1e-300):
                out.fail('si-values@%s,%s' % (fmt, c['mode']), 'T=%g P=%g Pa: %s, reference %s' % (T, P, v.ravel()[:3], want.ravel()[:3]))
    # discovery through the k-table cache, one format per directory
    from taurex.cache import GlobalCache
    from taurex.cache.ktablecache import KTableCache
    for fmt, fn in (('ktable-pickle', p1), ('ktable-hdf5', p2)):
        d = os.path.join(tmp, 'only_' + fmt)
        os.makedirs(d)
        shutil.copy(fn, d)
        synth.reset_world()
        GlobalCache()['ktable_path'] = d
        kc = KTableCache()
        kc.clear_cache()
        out.applies('ktable-discovery')
        found = cut(out, 'find_list_of_molecules@' + fmt, kc.find_list_of_molecules)
        if plain not in found:
            out.fail('ktable-discovery@' + fmt, 'file %s: molecules found %s, expected %s' % (os.path.basename(fn), sorted(found), plain))
            continue
        got = cut(out, 'ktable-cache-get@' + fmt, kc.__getitem__, plain)
        if got.moleculeName != plain or kc[plain] is not got:
            out.fail('ktable-discovery@%s,object' % fmt, 'served %r / not the same object twice' % got.moleculeName)
    synth.reset_world()
    return bool(len(w) >= 2 and tab.shape[0] > 1 and tab.shape[1] > 1)


def check_cia(out, c, tmp):
    from taurex.cia.picklecia import PickleCIA
    from taurex.cia.hitrancia import HitranCIA
    from taurex.cache import CIACache
    t = c['table']
    Tg = t['T0'] + np.concatenate([[0.0], np.cumsum(t['dT'])])[:max(t['nT'], 2)]
    if len(Tg) < 2:
        Tg = np.array([t['T0'], t['T0'] + 250.0])
    if c.get('cia_nT'):
        Tg = t['T0'] + np.concatenate([[0.0], np.cumsum(c['cia_dT'])])[:c['cia_nT']]
    nW = t['nW']
    wn = t['wn0'] + t['dwn'] * np.arange(nW)
    if c.get('hdr_forms'):
        out.cls('cia:range-spelt-differently')
        wn = float(round(t['wn0'])) + float(max(1, round(t['dwn']))) * np.arange(nW)     # whole numbers: every spelling is exact
    n = len(Tg) * nW
    delta = np.resize(np.array(t['delta'], dtype=float), n).reshape(len(Tg), nW)
    coef = 10.0 ** (-44.0 + delta)                    # cm5 molecule-2, HITRAN magnitude
    if c['negative']:
        coef[0, 0] = -coef[0, 0]                      # HITRAN files contain small negative values: read as zero
    for (a_, b_) in c.get('neg_at', []):
        coef[a_ % len(Tg), b_ % nW] = -abs(coef[a_ % len(Tg), b_ % nW])
    pair = c['pair']
    # ---- one range, all temperatures: pickle and HITRAN describe the same table ------------------------
    hit = os.path.join(tmp, '%s_2011.cia' % pair)
    allw = np.arange(nW)
    ranges = [(allw, list(range(len(Tg))))]
    if c['split'] and nW >= 4:
        h = nW // 2
        sub = [i for i in range(len(Tg)) if c['subset'][i % 3]] or [0]
        if c.get('cia_nT'):
            sub = [i for i in range(len(Tg)) if c['subset5'][i] or (c['keep_ends'] and i in (0, len(Tg) - 1))] or [0]
        if any(i not in sub for i in range(min(sub), max(sub))):
            out.cls('cia:gap-inside-band')
        if c.get('interleave'):
            # two ranges whose wavenumber spans overlap (their points interleave): HITRAN files do tabulate
            # overlapping bands for different temperature sets; the unified axis is still ascending
            ranges = [(allw[0::2], list(range(len(Tg)))), (allw[1::2], sub)]
            out.cls('cia:overlapping-ranges')
        else:
            ranges = [(allw[:h], list(range(len(Tg)))), (allw[h:], sub)]
        out.cls('cia:split-ranges')
        gaps = [i for i in range(min(sub), max(sub)) if i not in sub]
        if gaps and c.get('neg_gap', [False])[0]:
            # a noise entry below zero at a temperature that brackets the one this band leaves out
            j_ = max(i for i in sub if i < gaps[0]) if c['neg_gap'][2] else min(i for i in sub if i > gaps[0])
            k_ = ranges[1][0][c['neg_gap'][1] % len(ranges[1][0])]
            coef[j_, k_] = -abs(coef[j_, k_])
        if gaps and any(coef[i, k] < 0 for i in sub for k in ranges[1][0]):
            out.cls('cia:negative-in-gapped-band')
    file_ranges = list(ranges)
    if c.get('ranges_reversed') and len(ranges) > 1:
        file_ranges = file_ranges[::-1]          # the higher band listed first in the file: any order of blocks is legal
        out.cls('cia:ranges-listed-descending')
    with open(hit, 'w') as f:
        for (idx_, temps) in file_ranges:
            order_t = list(temps)
            if c.get('block_order') == 'descending':
                order_t = order_t[::-1]
            elif c.get('block_order') == 'rotated' and len(order_t) > 1:
                order_t = order_t[1:] + order_t[:1]
            for ib, it in enumerate(order_t):
                hf = ['%9.3f', '%9.1f', '%.6E'][c['hdr_forms'][ib % 3]] if c.get('hdr_forms') else '%9.3f'
                f.write(('%20s ' + hf + ' ' + hf + ' %6d %6.1f %9.3e %5.3f %27s %3d\n') % (pair, wn[idx_[0]], wn[idx_[-1]], len(idx_), Tg[it], abs(coef[it, idx_]).max(), -0.999, 'verif', 1))
                for k in idx_:
                    f.write('%10.4f %.10e\n' % (wn[k], coef[it, k]))
    wn_file = np.array([float('%10.4f' % x) for x in wn])
    Tg_file = np.array([float('%6.1f' % x) for x in Tg])
    if len(set(Tg_file)) < len(Tg_file) or len(set(wn_file)) < len(wn_file):
        out.cls('cia:degenerate-after-formatting')
        return False
    coef_file = np.array([[float('%.10e' % v) for v in row] for row in coef])
    si = np.maximum(coef_file, 0.0) * 1e-10
    hc = cut(out, 'load@hitran', HitranCIA, hit)
    out.applies('cia-grids')
    if not close(np.asarray(hc.wavenumberGrid, dtype=float), wn_file, rtol=1e-15) or \
            not close(np.asarray(hc.temperatureGrid, dtype=float), np.sort(Tg_file), rtol=1e-15) or hc.pairName != pair:
        out.fail('cia-grids@hitran', 'wavenumber / temperature grid / pair name differ from the file')
        return False
    # reference: per range, own temperature span -> linear interpolation, outside -> zero
    def ref_cia(T):
        res = np.zeros(nW)
        Tall = np.sort(Tg_file)
        if T <= Tall[0]:
            T = Tall[0]
        if T >= Tall[-1]:
            T = Tall[-1]
        for (idx_, temps) in ranges:
            Ts = Tg_file[temps]
            order = np.argsort(Ts)
            Ts = Ts[order]
            vals = si[np.array(temps)[order]][:, idx_]

            def at(Tq):
                if Tq < Ts[0] or Tq > Ts[-1]:
                    return np.zeros(len(idx_))
                j = int(np.searchsorted(Ts, Tq, side='right') - 1)
                if j >= len(Ts) - 1:
                    return vals[-1]
                f_ = (Tq - Ts[j]) / (Ts[j + 1] - Ts[j])
                return vals[j] * (1 - f_) + vals[j + 1] * f_
            # the unified table is defined on the master temperature grid, then interpolated linearly
            j = int(np.searchsorted(Tall, T, side='right') - 1)
            if j >= len(Tall) - 1:
                res[idx_] = at(Tall[-1])
            else:
                f2 = (T - Tall[j]) / (Tall[j + 1] - Tall[j])
                res[idx_] = at(Tall[j]) * (1 - f2) + at(Tall[j + 1]) * f2
        return res
    Tq = [Tg_file.min() - 20.0, Tg_file.max() + 20.0] + [Tg_file.min() + a * (Tg_file.max() - Tg_file.min()) for a, _ in c['tp']] + list(Tg_file)
    for T in Tq:
        with np.errstate(all='ignore'):
            v = np.asarray(cut(out, 'cia@hitran', hc.cia, float(T)), dtype=float)
        out.applies('cia-values')
        want = ref_cia(float(T))
        # (x1 - f (x1 - x2) with f within an ulp of one leaves a residue of eps x1 where the exact value is x2 = 0: an absolute
        # floor of a few ulp of the largest coefficient tabulated at that wavenumber)
        if v.shape != want.shape or not close(v, want, rtol=1e-9, atol=1e-70 + 1e-15 * si.max(axis=0)):
            out.fail('cia-values@hitran,%s' % ('split' if len(ranges) > 1 else 'single'), 'T=%g: %s, reference %s' % (T, v[:4], want[:4]))
            break
    if len(ranges) == 1:
        db = os.path.join(tmp, '%s_verif.db' % pair)
        order = np.argsort(Tg_file)
        with open(db, 'wb') as f:
            pickle.dump({'wno': wn_file, 't': Tg_file[order], 'xsecarr': si[order]}, f)
        pc = cut(out, 'load@cia-pickle', PickleCIA, db, pair)
        for T in Tq:
            with np.errstate(all='ignore'):
                a_ = np.asarray(cut(out, 'cia@pickle', pc.cia, float(T)), dtype=float)
                b_ = np.asarray(hc.cia(float(T)), dtype=float)
            out.applies('cia-formats-agree')
            if not close(a_, b_, rtol=1e-9, atol=1e-70):
                out.fail('cia-formats-agree', 'T=%g: pickle %s HITRAN %s' % (T, a_[:3], b_[:3]))
                break
        # discovery by pair name
        d = os.path.join(tmp, 'ciadir')
        os.makedirs(d)
        shutil.copy(db, d)
        synth.reset_world()
        cc = CIACache()
        cut(out, 'set_cia_path', cc.set_cia_path, d)
        out.applies('cia-pair-name')
        got = cut(out, 'cia-cache-get', cc.__getitem__, pair)
        if got.pairName != pair or cc[pair] is not got:
            out.fail('cia-pair-name', 'served %r for %r / not the same object twice' % (got.pairName, pair))
        synth.reset_world()
    return bool(len(ranges) > 1 or np.ptp(coef) > 0)


def check_cache(out, c, tmp):
    from taurex.cache import OpacityCache
    t = c['table']
    plain, iso = NAMES[c['name']]
    Tg, P_unit, P_pa, wn, tab = arrays(t)
    if len(Tg) < 2:
        Tg = np.array([Tg[0], Tg[0] + 400.0])
        tab = np.concatenate([tab, tab * 7.0], axis=1)
    dirs = {'a': os.path.join(tmp, 'A'), 'b': os.path.join(tmp, 'B')}
    tabs = {'a': tab, 'b': tab * 3.0}
    for k, d in dirs.items():
        os.makedirs(d)
        if c['fmt'] == 'pickle':
            write_pickle(os.path.join(d, '%s.R1.TauREx.pickle' % plain), wn, Tg, P_pa / 1e5, tabs[k])
        elif c['fmt'] == 'hdf5':
            write_hdf5(os.path.join(d, '%s.h5' % plain), wn, Tg, P_unit, t['unit'], tabs[k], plain)
        else:
            write_exo(os.path.join(d, 'opac%s.dat' % plain), wn, Tg, P_pa / 1e5, tabs[k])
    # a third directory that holds another molecule only
    dirs['e'] = os.path.join(tmp, 'E')
    os.makedirs(dirs['e'])
    other_mol = 'CH4' if plain != 'CH4' else 'CO2'
    if c['fmt'] == 'pickle':
        write_pickle(os.path.join(dirs['e'], '%s.R1.TauREx.pickle' % other_mol), wn, Tg, P_pa / 1e5, tab)
    elif c['fmt'] == 'hdf5':
        write_hdf5(os.path.join(dirs['e'], '%s.h5' % other_mol), wn, Tg, P_unit, t['unit'], tab, other_mol)
    else:
        write_exo(os.path.join(dirs['e'], 'opac%s.dat' % other_mol), wn, Tg, P_pa / 1e5, tab)
    synth.reset_world()
    oc = OpacityCache()
    cut(out, 'set_opacity_path', oc.set_opacity_path, dirs['a'])
    cur_path, mode = 'a', 'linear'
    loaded_from = None        # which path the currently cached object came from
    cached = None
    manual = None
    Tq = float(0.5 * (Tg[0] + Tg[1]) + 0.123 * (Tg[1] - Tg[0]))     # off-node temperature: modes differ
    Pq = float(P_pa[0])
    mode_changed_after_load = False
    for op in c['ops']:
        if op == 'get' and cached is None and manual is None and cur_path == 'e':
            # nothing to load from here: the request fails, and leaves nothing behind that outlives the path
            out.cls('request-while-absent')
            try:
                oc[plain]
                out.fail('served-from-configured-path-and-mode@absent', 'a molecule the configured path does not hold was served')
            except Exception:
                pass
        elif op == 'get':
            got = cut(out, 'cache-get', oc.__getitem__, plain)
            out.applies('same-object')
            if cached is not None and got is not cached:
                out.fail('same-object', 'a second request served a different object although nothing was cleared')
            if cached is None:
                loaded_from = cur_path if manual is None else 'manual'
            cached = got
            src = tabs[loaded_from] if loaded_from != 'manual' else manual
            with np.errstate(all='ignore'):
                v = np.asarray(cut(out, 'opacity', got.opacity, Tq, Pq), dtype=float)
            want = ref.interp_xsec_ref(src, list(Tg), list(P_pa), Tq, Pq, mode)
            other = ref.interp_xsec_ref(src, list(Tg), list(P_pa), Tq, Pq, 'exp' if mode == 'linear' else 'linear')
            out.applies('served-from-configured-path-and-mode')
            if not close(v, want, rtol=1e-9, atol=3e-60 + 1e-13 * float(want.max())):
                which = 'other-mode' if close(v, other, rtol=1e-9, atol=3e-60) else 'other-table'
                out.fail('served-from-configured-path-and-mode@%s,%s' % (which, c['fmt']),
                         'mode %s path %s: got %s want %s' % (mode, loaded_from, v[:3], want[:3]))
        elif op == 'set_interp':
            mode = 'exp' if mode == 'linear' else 'linear'
            cut(out, 'set_interpolation', oc.set_interpolation, mode)
            if cached is not None:
                mode_changed_after_load = True
            cached = None
            manual_keep = manual
            manual = None                   # set_interpolation clears everything, manual additions included
        elif op == 'clear':
            cut(out, 'clear_cache', oc.clear_cache)
            cached, manual = None, None
        elif op in ('path_a', 'path_b', 'path_e'):
            cur_path = op[-1]
            cut(out, 'set_opacity_path', oc.set_opacity_path, dirs[cur_path])
        elif op == 'memory':
            cut(out, 'set_memory_mode', oc.set_memory_mode, True)
            cached, manual = None, None
        elif op == 'add' and cached is None:
            manual = tab * 11.0
            cut(out, 'add_opacity', oc.add_opacity, synth.SynthOpacity(plain, wn, Tg, P_pa, manual, mode=mode))
    synth.reset_world()
    if mode_changed_after_load:
        out.cls('mode-change-after-load')
    return bool(mode_changed_after_load)


def check(case):
    out = Outcome()
    part = case['part']
    out.cls('part:' + part)
    tmp = tempfile.mkdtemp(prefix='verif_c14_')
    try:
        fn = {'xsec': check_xsec, 'ktable': check_ktable, 'cia': check_cia, 'cache': check_cache}[part]
        out.nontrivial = bool(fn(out, case, tmp))
    except CutError:
        pass
    finally:
        synth.reset_world()
        shutil.rmtree(tmp, ignore_errors=True)
    return out
