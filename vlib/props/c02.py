"""C02 — emission / direct-image spectra equal the documented layered thermal integral."""
import math
import numpy as np
from hypothesis import strategies as st

from vlib.runner import Outcome, cut, CutError, close, maxrel
from vlib import synth, ref, strategies as S
from vlib.props.c01 import absorption_sigma_ref, zero_corner_ambiguous, RSUN

ID = 'C02'
TITLE = 'thermal emission integral'
CASES = {'quick': 900, 'thorough': 48000}
SHARDS = {'quick': 1, 'thorough': 16}
RULE = ('Generated: synthetic world as in C01 (no cloud deck) with EmissionModel or DirectImageModel, 1-8 '
        'Gauss points, star temperature/radius/distance, isothermal / monotone / inverted / arbitrary '
        'piecewise-linear temperature profiles, molecular tables of every magnitude class, optional CIA and '
        'Rayleigh.  Non-trivial = non-isothermal profile with at least one layer whose vertical optical '
        'depth lies in (0.05, 5) at some wavenumber; distinct by case hash.')
ASSUMPTIONS = [
    'Planck function from CODATA-2018 constants typed in, in the wavenumber form pi*2hc^2/lambda^5/(e^{hc/lambda kT}-1)*1e-6',
    'the licensed saturation cut-off is modelled exactly: a transmittance whose optical depth has min over wavenumber >= 10 is set to zero; cases within 1e-9 of the threshold are not judged on values',
    'direct image: spectrum = F * Rp^2 / (2 d^2) with d in parsec (3.08567758e16 m); the constant 1/2 is the code convention, the property fixes the Rp^2/d^2 scaling',
    'cloud decks are not part of emission worlds (SimpleClouds adds a per-layer opacity that only the transit geometry indexes)',
    'molecular opacities recomputed from the generated tables (C04 reference); CIA/Rayleigh opacities as the contribution reports them; layer thickness = model.deltaz (judged in C11)',
    'rtol 1e-8 (fastmath Planck kernel)',
]
RULE = RULE + ' ' + 'Worlds also come in integer-axis forms (wavenumber and/or temperature axes held as integer arrays of the same values). Histories: after the first evaluation the star temperature is changed on the same model object and the model evaluated again on the same grid (clause star-changed); then one of temperature / planet mass / planet radius / an abundance is moved alone on the same model and the spectrum judged against the integral for the atmosphere as it now is (clause live-update).'
REQUIRED = {'refused-quadrature-before-use': 0.2, 'kind:emission': 0.3, 'kind:directimage': 0.2, 'profile:iso': 0.1, 'profile:noniso': 0.3,
            'regime:mixed': 0.08, 'star-changed': 0.3, 'live-update:planet_mass': 0.04, 'live-update:temperature': 0.02, 'live-update:abundance': 0.04, 'live-update:planet_radius': 0.04}
PARSEC = 3.08567758e16


@st.composite
def _case(draw):
    kind = draw(st.sampled_from(['emission', 'emission', 'directimage']))
    ngauss = draw(S.ints(1, 8))
    dist = draw(st.floats(1.0, 500.0))
    w = draw(S.world(extras=('CIA', 'Rayleigh')))
    # a refused setting on the built model before it is used: a quadrature of zero points (the caller catches the error)
    # a later change of the star on the same model object (what a retrieval fitting a stellar parameter does)
    return {'world': w, 'kind': kind, 'ngauss': ngauss, 'dist': dist, 'refused_gauss': draw(S.pick([None, 0, None, -1])),
            'star_T2': draw(st.floats(2500.0, 9000.0))}


def strategy(tier):
    return _case()


def layer_dtau(out, W, m):
    T = np.asarray(m.temperatureProfile, dtype=float)
    P = np.asarray(m.pressureProfile, dtype=float)
    dz = np.asarray(m.deltaz, dtype=float)
    dens = P / (ref.K_BOLTZ * T)
    nl = len(T)
    dtau = np.zeros((nl, len(W.wn)))
    for c in m.contribution_list:
        sx = np.asarray(c.sigma_xsec, dtype=float)
        if c.name == 'Absorption':
            sref = absorption_sigma_ref(W, m)
            out.applies('absorption-sigma')
            if sx.shape != sref.shape or not close(sx, sref, rtol=1e-9, atol=1e-13 * float(np.max(sref)) + 1e-300):
                out.fail('absorption-sigma', 'weighted cross-section differs from table x mixing ratio')
            dtau += sref * (dens * dz)[:, None]
        elif c.name == 'CIA':
            dtau += sx * (dens * dens * dz)[:, None]
        else:
            dtau += sx * (dens * dz)[:, None]
    return dtau


def check(case):
    out = Outcome()
    w = case['world']
    kind, ng = case['kind'], case['ngauss']
    out.cls('kind:' + kind)
    out.cls('ngauss:%d' % ng)
    try:
        W = cut(out, 'build-world', synth.build_world, w)
        W.star.distance = case['dist']
        m = cut(out, 'build-model', synth.make_model, W, kind, None, ngauss=ng)
        if case.get('refused_gauss') is not None:
            try:
                m.set_num_gauss(case['refused_gauss'])
            except Exception:
                out.cls('refused-quadrature-before-use')
        with np.errstate(all='ignore'):
            res = cut(out, 'model', m.model)
            part = cut(out, 'partial_model', m.partial_model)
    except CutError:
        return out
    wn, spec, tau, _ = res
    spec = np.array(spec, dtype=float, copy=True)
    tau = np.array(tau, dtype=float, copy=True)
    out.applies('repeatable')
    try:
        with np.errstate(all='ignore'):
            again = cut(out, 'model', m.model)
        if not np.array_equal(np.asarray(again[1]), spec, equal_nan=True):
            out.fail('repeatable', 'second model() call differs (max rel %.2e)' % maxrel(again[1], spec))
    except CutError:
        return out
    T = np.asarray(m.temperatureProfile, dtype=float)
    nl = len(T)
    iso = bool(np.all(T == T[0]))
    out.cls('profile:' + ('iso' if iso else 'noniso'))
    if not iso:
        d = np.diff(T)
        out.cls('shape:' + ('monotone' if (np.all(d <= 0) or np.all(d >= 0)) else 'wiggly'))
    out.applies('shape')
    if spec.shape != (len(W.wn),) or tau.shape != (nl, len(W.wn)):
        out.fail('shape', 'spectrum %s tau %s' % (spec.shape, tau.shape))
        return out
    if zero_corner_ambiguous(W, m):
        out.cls('ambiguous-zero-corner')
        return out
    dtau = layer_dtau(out, W, m)
    if not np.all(np.isfinite(dtau)):
        out.cls('degenerate')
        return out
    Rp = w['radius'] * synth.RJUP
    Rs = w['star_R'] * RSUN
    flux, I, tau_ref, borderline = ref.emission_reference(W.wn, T, dtau, ng)
    if kind == 'emission':
        scale = (Rp / Rs) ** 2 / ref.planck_wn(W.wn, w['star_T'])
    else:
        scale = Rp ** 2 / (2.0 * (case['dist'] * PARSEC) ** 2) * np.ones(len(W.wn))
    want = flux * scale
    col = dtau.sum(axis=0)
    if np.all(dtau.max(axis=1) < 0.05):
        out.cls('regime:transparent')
    elif np.all(col > 50):
        out.cls('regime:saturated')
    else:
        out.cls('regime:mixed')
    mid = np.any((dtau > 0.05) & (dtau < 5.0))
    out.nontrivial = bool((not iso) and mid)
    tiny = 1e-300
    if borderline:
        out.cls('cutoff-borderline')
    else:
        out.applies('spectrum')
        if not close(spec, want, rtol=1e-8, atol=tiny):
            out.fail('spectrum@%s' % kind, 'got %s want %s (max rel %.2e)' % (spec[:3], want[:3], maxrel(spec, want)))
        out.applies('intensity-per-angle')
        Ic = np.asarray(part[0], dtype=float)
        if Ic.shape != I.shape or not close(Ic, I, rtol=1e-8, atol=tiny):
            out.fail('intensity-per-angle', 'partial_model intensities differ (max rel %.2e)'
                     % (maxrel(Ic, I) if Ic.shape == I.shape else -1))
        mu_c = 1.0 / np.asarray(part[1], dtype=float).ravel()
        w_c = np.asarray(part[2], dtype=float).ravel()
        mus, ws = ref.gauss_legendre_01(ng)
        out.applies('quadrature')
        if not close(mu_c, mus, rtol=1e-12) or not close(w_c, ws, rtol=1e-12):
            out.fail('quadrature', 'nodes/weights are not Gauss-Legendre on [0,1]')
        out.applies('layer-transmittance')
        if not close(tau, tau_ref, rtol=1e-8, atol=1e-12):
            out.fail('layer-transmittance', 'model()[2] differs from e^-tau(>l) - e^-tau(>=l)')
    # --- consequences, independent of the reference integral ------------------------------
    slack = math.exp(-10.0)
    if kind == 'emission':
        def bb_ratio(Tx):
            return ref.planck_wn(W.wn, Tx) / ref.planck_wn(W.wn, w['star_T']) * (Rp / Rs) ** 2
    else:
        def bb_ratio(Tx):
            return ref.planck_wn(W.wn, Tx) * Rp ** 2 / (2.0 * (case['dist'] * PARSEC) ** 2)
    lo, hi = bb_ratio(float(T.min())), bb_ratio(float(T.max()))
    if iso:
        out.applies('isothermal-identity')
        if not close(spec, lo, rtol=1e-8 + slack, atol=tiny):
            out.fail('isothermal-identity@%s' % kind,
                     'got %s blackbody ratio %s (max rel %.2e)' % (spec[:3], lo[:3], maxrel(spec, lo)))
        if float(col.min()) < 10.0 * (1 - 1e-9) and not close(spec, lo, rtol=1e-8, atol=tiny):
            out.fail('isothermal-identity@%s,unsaturated' % kind, 'max rel %.2e' % maxrel(spec, lo))
    # ---- the same model object evaluated on two windows of equal length, one after the
    # other (what a retrieval does on the clipped grid): values at a wavenumber must not
    # depend on which other wavenumbers were computed before or alongside
    n = len(W.wn)
    if n >= 8:
        out.cls('window-sequence')
        out.applies('window-sequence')
        try:
            for name, sel in (('A', slice(1, 3)), ('B', slice(n - 3, n - 1)), ('A', slice(1, 3))):
                with np.errstate(all='ignore'):
                    rw = cut(out, 'model@window', m.model, W.wn[sel].copy(), True)
                gw = np.asarray(rw[0], dtype=float)
                sw = np.asarray(rw[1], dtype=float)
                idx = [int(np.argmin(np.abs(W.wn - x))) for x in gw]
                if len(gw) == 0 or not np.array_equal(W.wn[idx], gw):
                    out.fail('window-sequence@grid', 'window %s returned wavenumbers not on the native grid' % name)
                    break
                # the cut-off decision (min over the computed wavenumbers) may differ between window and full grid:
                # a skipped layer term is at most e^-10 x B(T_layer), i.e. e^-10 of the hottest-layer blackbody
                # ratio in absolute terms (NOT relative to a spectrum that cold upper layers may make much smaller)
                if not np.all(np.abs(sw - spec[idx]) <= tiny + 1e-8 * np.abs(spec[idx]) + slack * hi[idx]):
                    out.fail('window-sequence@%s' % kind, 'window %s differs from the full-grid values (max rel %.2e)'
                             % (name, maxrel(sw, spec[idx])))
                    break
        except CutError:
            pass
    # ---- the star is changed on the same model object and the model evaluated again on the same grid: the ratio follows
    # the new stellar blackbody (emission), the direct image does not depend on the star at all
    if not borderline and case.get('star_T2') is not None:
        out.cls('star-changed')
        out.applies('star-changed')
        try:
            m.star.temperature = case['star_T2']
            with np.errstate(all='ignore'):
                r2 = cut(out, 'model@star-changed', m.model)
            s2 = np.asarray(r2[1], dtype=float)
            if kind == 'emission':
                want2 = flux * (Rp / Rs) ** 2 / ref.planck_wn(W.wn, case['star_T2'])
            else:
                want2 = want
            if s2.shape != want2.shape or not close(s2, want2, rtol=1e-8, atol=tiny):
                out.fail('star-changed@%s' % kind, 'after star.temperature = %r: got %s want %s (max rel %.2e)'
                         % (case['star_T2'], s2[:3], want2[:3], maxrel(s2, want2) if s2.shape == want2.shape else -1))
        except CutError:
            pass
        finally:
            m.star.temperature = w['star_T']
    # ---- a live update: ONE parameter of the SAME built model moved alone (what a retrieval does between evaluations), the
    # model evaluated again: it must again be the layered integral for the atmosphere as it now is
    if not borderline:
        kinds = ['temperature', 'planet_mass', 'planet_radius', 'abundance']
        kind_u = kinds[int(case['dist']) % 4]
        fac = 0.6 + (case['dist'] - math.floor(case['dist'])) * 0.9
        if abs(fac - 1.0) < 0.05:
            fac = 1.3
        cands = {'temperature': ['T', 'T_surface', 'T_top'], 'abundance': list(m.chemistry.activeGases)}.get(kind_u, [kind_u])
        name = next((c_ for c_ in cands if c_ in m.fittingParameters), None)
        old = m.fittingParameters[name][2]() if name is not None else None
        if name is not None and isinstance(old, (float, int, np.floating)) and math.isfinite(old) and old > 0:
            if kind_u == 'abundance' and fac > 1.0:
                fac = 1.0 / fac                     # abundances only go down: the mixture stays valid
            try:
                m[name] = old * fac
                with np.errstate(all='ignore'):
                    r3 = cut(out, 'model@live-update', m.model)
                s3 = np.asarray(r3[1], dtype=float)
                T3 = np.asarray(m.temperatureProfile, dtype=float)
                zb = np.asarray(m.altitude_boundaries, dtype=float)
                Rp3 = Rp * (fac if kind_u == 'planet_radius' else 1.0)
                if not np.all(np.isfinite(zb)) or zb.max() > 1e3 * Rp3 or zero_corner_ambiguous(W, m):
                    out.cls('live-update:not-judged')
                else:
                    dtau3 = layer_dtau(out, W, m)
                    if np.all(np.isfinite(dtau3)):
                        flux3, _, _, border3 = ref.emission_reference(W.wn, T3, dtau3, ng)
                        if not border3:
                            out.cls('live-update:' + kind_u)
                            out.applies('live-update')
                            if kind == 'emission':
                                want3 = flux3 * (Rp3 / Rs) ** 2 / ref.planck_wn(W.wn, w['star_T'])
                            else:
                                want3 = flux3 * Rp3 ** 2 / (2.0 * (case['dist'] * PARSEC) ** 2)
                            if s3.shape != want3.shape or not close(s3, want3, rtol=1e-8, atol=tiny):
                                out.fail('live-update@%s,%s' % (kind, kind_u), 'after %s x%.3f: got %s want %s (max rel %.2e)'
                                         % (name, fac, s3[:3], want3[:3], maxrel(s3, want3) if s3.shape == want3.shape else -1))
            except CutError:
                pass
    out.applies('hot-cold-bounds')
    if np.any(spec < lo * (1 - 1e-8 - slack) - tiny) or np.any(spec > hi * (1 + 1e-8 + slack) + tiny):
        k = int(np.argmax(np.maximum(lo - spec, spec - hi) / np.maximum(hi, tiny)))
        out.fail('hot-cold-bounds@%s' % kind, 'got %r outside [%r, %r]' % (spec[k], lo[k], hi[k]))
    return out
