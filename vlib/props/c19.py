"""C19 — clouds and hazes act only inside their declared pressure range."""
import math
import numpy as np
from hypothesis import strategies as st

from vlib.runner import Outcome, cut, CutError, close, maxrel
from vlib import synth, ref, strategies as S
from vlib.props.c01 import RSUN

ID = 'C19'
TITLE = 'cloud and haze pressure ranges'
CASES = {'quick': 700, 'thorough': 48000}
SHARDS = {'quick': 1, 'thorough': 16}
RULE = ('Generated: transmission world (2-40 layers) with one of SimpleClouds / FlatMie / LeeMie; cloud-top '
        'pressure placed inside, above, below the modelled range or exactly on a layer pressure; each haze '
        'bound drawn from {unset(-1), inside the range, beyond either end, below 1 Pa, inverted pair}; '
        'magnitudes, particle radius and Q drawn.  Non-trivial = the cloud top / haze window lies strictly '
        'inside the atmosphere and cuts at least one layer (for hazes: partially); distinct by case hash.')
ASSUMPTIONS = [
    'haze window = [min, max] of the two declared bounds, an unset (-1) bound replaced by the corresponding end of the atmosphere (level pressures for the grey haze, layer pressures for the parameterised haze, as each documents its bounds)',
    'grey haze: a layer wholly inside the window carries exactly the declared opacity when all layers have equal log-pressure width (standard grid); partially overlapping layers carry an opacity in (0, declared]; layers wholly outside carry 0',
    'parameterised haze: layers whose centre pressure lies in the window carry Q_ext(nu) pi a^2 chi with Q_ext = 5/(Q x^-4 + x^0.2), x = 2 pi a / lambda; layers wholly outside carry 0; for an inverted pair only the outside clause is judged',
    'cloud deck: only the transit geometry is judged (emission indexes per-layer opacities differently)',
]
RULE = RULE + ' ' + 'Also: the pressure range of the same model moved under a cloud deck, layer pressures as whole-number pascals in an integer array profile; cases stratified by kind.'
REQUIRED = {'cloud-range-moved:after-refused-point': 0.03, 'pressure:integer-array': 0.1, 'cloud-range-moved:deck-inside': 0.02, 'kind:clouds': 0.2, 'kind:flat': 0.2, 'kind:lee': 0.2, 'bound:unset': 0.08, 'window:inside': 0.04}
# coverage-guided extra (thorough tier): pure-Python taurex modules on this property's path, instrumented by atheris
FUZZ = {'include': ['taurex.contributions.simpleclouds', 'taurex.contributions.flatmie', 'taurex.contributions.leemie'], 'runs': 12000, 'workers': 4}


def _bound():
    # (kind, position as fraction of the log-pressure range measured from the top)
    return st.tuples(st.sampled_from(['unset', 'inside', 'inside', 'inside', 'beyond-top', 'beyond-bottom', 'sub-pascal']),
                     st.floats(0.02, 0.98))


STRATA = {'clouds': 1, 'flat': 1, 'lee': 1}
STRATA_KEY = 'kind'


@st.composite
def _case(draw, kind=None):
    kind = kind or draw(st.sampled_from(['clouds', 'flat', 'lee']))
    c = {'kind': kind, 'new_path': draw(st.booleans())}
    if kind == 'clouds':
        c['where'] = draw(st.sampled_from(['inside', 'inside', 'on-layer', 'above-top', 'below-bottom']))
        c['frac'] = draw(st.floats(0.02, 0.98))
        c['move'] = draw(st.floats(2.0, 1000.0))
        c['range_move'] = [10.0 ** draw(st.floats(-0.5, 2.0)), 10.0 ** draw(st.floats(-2.0, 0.5))]
    else:
        c['top'] = draw(_bound())
        c['bottom'] = draw(_bound())
        c['mix'] = 10.0 ** draw(st.floats(-30.0, -20.0))
        c['radius'] = draw(st.floats(0.005, 10.0))
        c['q'] = draw(st.floats(0.5, 100.0))
        c['lee_mix'] = 10.0 ** draw(st.floats(-16.0, -6.0))
        c['range_move'] = [10.0 ** draw(st.floats(-0.5, 2.0)), 10.0 ** draw(st.floats(-2.0, 0.5))]
    c['world'] = draw(S.world(layers=(2, 40), nwn=(2, 8), max_active=2, extras=(), mags=['transparent', 'mixed']))
    # the layer pressures handed over as an array profile of whole-number pascals in an integer array (typed-in values)
    c['pressure_form'] = draw(S.pick(['simple', 'int-array', 'simple', 'simple', 'int-array']))
    return c


def strategy(tier, part=None):
    return _case(part)


def bound_value(spec, lo, hi, inside_lo=None):
    """pressure in Pa for a bound spec, atmosphere spanning log10 P in [lo, hi]"""
    kind, f = spec
    if kind == 'unset':
        return -1.0
    if kind == 'inside':
        return 10.0 ** (lo + f * (hi - lo))
    if kind == 'beyond-top':
        return 10.0 ** (lo - 0.2 - 2 * f)
    if kind == 'beyond-bottom':
        return 10.0 ** (hi + 0.2 + 2 * f)
    return 10.0 ** (-0.05 - 3 * f)        # below 1 Pa: log10 negative


def check(case):
    from taurex.contributions import SimpleCloudsContribution, FlatMieContribution, LeeMieContribution
    out = Outcome()
    w = case['world']
    kind = case['kind']
    out.cls('kind:' + kind)
    kw = {'new_path_method': case['new_path']}
    def int_pressures(Wx):
        """replace the log-spaced profile by an array profile holding the same layer pressures rounded to whole pascals"""
        from taurex.data.profiles.pressure.arraypressure import ArrayPressureProfile
        if case.get('pressure_form') != 'int-array' or w['nlayers'] < 2:
            return False
        lv = np.logspace(math.log10(Wx.pmax), math.log10(Wx.pmin), w['nlayers'] + 1)
        pi_ = np.round(np.sqrt(lv[:-1] * lv[1:]))
        if pi_.min() < 1 or not np.all(np.diff(pi_) < 0):
            return False
        Wx.pressure = ArrayPressureProfile(pi_.astype(np.int64))
        return True
    try:
        W = cut(out, 'build-world', synth.build_world, w)
        if int_pressures(W):
            out.cls('pressure:integer-array')
        lo, hi = math.log10(W.pmin), math.log10(W.pmax)
        base = cut(out, 'build-model', synth.make_model, W, 'transmission', synth.make_contributions(W, ['Absorption']), **kw)
        with np.errstate(all='ignore'):
            r0 = cut(out, 'model', base.model)
        t0 = np.array(r0[2], dtype=float, copy=True)
        Pl = np.array(base.pressureProfile, dtype=float, copy=True)          # layer pressures, surface first
        Lv = np.array(base.pressure.pressure_profile_levels, dtype=float, copy=True)
        nl = len(Pl)
        if kind == 'clouds':
            where = case['where']
            if where == 'inside':
                pc = 10.0 ** (lo + case['frac'] * (hi - lo))
            elif where == 'on-layer':
                pc = float(Pl[int(case['frac'] * nl) % nl])
            elif where == 'above-top':
                pc = 10.0 ** (lo - 1.0 - case['frac'])
            else:
                pc = 10.0 ** (hi + 1.0 + case['frac'])
            out.cls('cloud:' + where)
            contrib = SimpleCloudsContribution(clouds_pressure=pc)
        elif kind == 'flat':
            top = bound_value(case['top'], lo, hi)
            bot = bound_value(case['bottom'], lo, hi)
            contrib = FlatMieContribution(flat_mix_ratio=case['mix'], flat_bottomP=bot, flat_topP=top)
        else:
            top = bound_value(case['top'], lo, hi)
            bot = bound_value(case['bottom'], lo, hi)
            contrib = LeeMieContribution(lee_mie_radius=case['radius'], lee_mie_q=case['q'],
                                         lee_mie_mix_ratio=case['lee_mix'], lee_mie_bottomP=bot, lee_mie_topP=top)
        W2 = cut(out, 'build-world', synth.build_world, w)
        int_pressures(W2)
        m = cut(out, 'build-model', synth.make_model, W2, 'transmission',
                synth.make_contributions(W2, ['Absorption']) + [contrib], **kw)
        with np.errstate(all='ignore'):
            r = cut(out, 'model@' + kind, m.model)
    except CutError:
        return out
    sig = np.asarray(contrib.sigma_xsec, dtype=float)
    trans = np.asarray(r[2], dtype=float)
    depth = np.asarray(r[1], dtype=float)
    wn = W.wn
    out.applies('sigma-shape')
    if sig.shape != (nl, len(wn)):
        out.fail('sigma-shape@' + kind, 'got %s' % (sig.shape,))
        return out

    if kind == 'clouds':
        inside = Pl >= pc
        out.applies('cloud-opaque-below')
        if not np.all(np.isposinf(sig[inside])) or not np.all(trans[inside] == 0.0):
            out.fail('cloud-opaque-below@' + where, 'a layer at or below the cloud top is not opaque (P_cloud=%r)' % pc)
        out.applies('cloud-untouched-above')
        if not np.all(sig[~inside] == 0.0) or not np.array_equal(trans[~inside], t0[~inside]):
            out.fail('cloud-untouched-above@' + where, 'a layer above the cloud top differs from the cloud-free model')
        Rp = w['radius'] * synth.RJUP
        Rs = w['star_R'] * RSUN
        z = np.asarray(m.altitudeProfile, dtype=float)
        dz = np.asarray(m.deltaz, dtype=float)
        tt = t0.copy()
        tt[inside] = 0.0
        want = ref.transit_depth(Rp, Rs, z, dz, tt)
        out.applies('cloud-depth')
        if np.any(depth < want * (1 - 1e-9)):
            out.fail('cloud-depth@' + where, 'depth %s below the integral with the cloudy layers opaque %s' % (depth[:3], want[:3]))
        out.nontrivial = bool(where in ('inside', 'on-layer') and 0 < inside.sum() < nl)
        # history: the same contribution object after its cloud top has been moved (deeper, then
        # higher) must behave like a fresh one declared at the new pressure
        out.applies('cloud-moved')
        try:
            for fct in (case.get('move', 30.0), 1.0 / case.get('move', 30.0) ** 2):
                contrib.cloudsPressure = contrib.cloudsPressure * fct
                pnow = contrib.cloudsPressure
                with np.errstate(all='ignore'):
                    rm = cut(out, 'model@clouds-moved', m.model)
                ins = Pl >= pnow
                tm = np.asarray(rm[2], dtype=float)
                sg = np.asarray(contrib.sigma_xsec, dtype=float)
                if not np.all(np.isposinf(sg[ins])) or not np.all(sg[~ins] == 0.0) or \
                        not np.all(tm[ins] == 0.0) or not np.array_equal(tm[~ins], t0[~ins]):
                    out.fail('cloud-moved@%s' % ('deeper' if fct > 1 else 'higher'),
                             'after moving the cloud top to %r Pa the opaque layers are not exactly those at or below it' % pnow)
                    break
            # ... and after the pressure range of the SAME model was moved (same layer count, same cloud-top pressure):
            # the opaque layers are those of the grid as it now is
            mv = case.get('range_move', [30.0, 10.0])
            if 'atm_max_pressure' not in m.fittingParameters:
                return out                      # an array profile has no range to move
            new_max, new_min = float(m['atm_max_pressure']) * mv[0], float(m['atm_min_pressure']) * mv[1]
            if new_max >= 3.0 * new_min:
                out.applies('cloud-range-moved')
                m['atm_max_pressure'] = new_max
                m['atm_min_pressure'] = new_min
                mols_ = [g['mol'] for g in w['gases'] if g.get('table') is not None and g.get('logtop') is None and g['mol'] in m.fittingParameters]
                if mols_ and case.get('move', 0.0) > 30.0:
                    # the point with the moved range is first tried together with an abundance above one and refused (the
                    # caller catches the invalid-model error), then evaluated with the abundance put back
                    keep_ = float(m[mols_[0]])
                    m[mols_[0]] = 1.5
                    try:
                        with np.errstate(all='ignore'):
                            m.model()
                    except Exception:
                        out.cls('cloud-range-moved:after-refused-point')
                    m[mols_[0]] = keep_
                with np.errstate(all='ignore'):
                    rr = cut(out, 'model@range-moved', m.model)
                Pn = np.array(m.pressureProfile, dtype=float, copy=True)
                insn = Pn >= contrib.cloudsPressure
                sgn = np.asarray(contrib.sigma_xsec, dtype=float)
                tn = np.asarray(rr[2], dtype=float)
                if sgn.shape != (nl, len(wn)) or not np.all(np.isposinf(sgn[insn])) or not np.all(sgn[~insn] == 0.0) or not np.all(tn[insn] == 0.0):
                    out.fail('cloud-range-moved', 'after moving the pressure range to [%r, %r] Pa the opaque layers are not those at or below %r Pa'
                             % (new_min, new_max, contrib.cloudsPressure))
                elif 0 < insn.sum() < nl:
                    out.cls('cloud-range-moved:deck-inside')
        except CutError:
            pass
        return out

    nt = [False]

    def judge_haze(sig, Pl, Lv, sfx):
        # ---- hazes ----------------------------------------------------------------------------------
        for nm, b in (('top', case['top']), ('bottom', case['bottom'])):
            if b[0] == 'unset':
                out.cls('bound:unset')
            out.cls('%s:%s' % (nm, b[0]))
        # level intervals per layer (surface first): layer l spans [Lv[l+1], Lv[l]] in pressure
        lay_lo, lay_hi = Lv[1:], Lv[:-1]
        if kind == 'flat':
            ends = (float(Lv.min()), float(Lv.max()))
        else:
            ends = (float(Pl.min()), float(Pl.max()))
        t_eff = top if top > 0 else ends[0]
        b_eff = bot if bot > 0 else ends[1]
        inverted = t_eff > b_eff
        wlo, whi = min(t_eff, b_eff), max(t_eff, b_eff)
        if inverted:
            out.cls('window:inverted')
        elif wlo > ends[0] and whi < ends[1]:
            out.cls('window:inside')
        eps = 1e-12
        wholly_out = (lay_lo >= whi * (1 + eps)) | (lay_hi <= wlo * (1 - eps))
        out.applies('haze-zero-outside')
        if np.any(sig[wholly_out] != 0.0):
            l = int(np.where(np.any(sig != 0.0, axis=1) & wholly_out)[0][0])
            out.fail(('haze-zero-outside@%s,top=%s,bottom=%s' % (kind, case['top'][0], case['bottom'][0])) + sfx,
                     'layer %d [%.4g,%.4g] Pa is outside the window [%.4g,%.4g] but carries %r'
                     % (l, lay_lo[l], lay_hi[l], wlo, whi, float(sig[l].max())))
        if np.any(sig < 0) or not np.all(np.isfinite(sig)):
            out.fail('haze-finite-nonnegative@' + kind, 'min %r' % float(np.nanmin(sig)))
        if kind == 'lee':
            a = case['radius']
            lam = 10000.0 / wn
            x = 2.0 * math.pi * a / lam
            qext = 5.0 / (case['q'] * x ** (-4.0) + x ** 0.2)
            want = qext * math.pi * (a * 1e-6) ** 2 * case['lee_mix']
            # a declared bound exactly on a layer pressure is not judged (either side is fine);
            # an UNSET bound means the whole atmosphere, end layer included
            lo_ok = (Pl >= wlo) if (top < 0 and not inverted) else (Pl >= wlo * (1 + eps))
            hi_ok = (Pl <= whi) if (bot < 0 and not inverted) else (Pl <= whi * (1 - eps))
            centre_in = lo_ok & hi_ok
            if not inverted:
                out.applies('lee-magnitude')
                for l in np.where(centre_in)[0]:
                    if not close(sig[l], want, rtol=1e-10, atol=1e-300):
                        out.fail(('lee-magnitude@top=%s,bottom=%s' % (case['top'][0], case['bottom'][0])) + sfx,
                                 'layer %d (P=%.4g in window [%.4g,%.4g]) carries %s want %s' % (l, Pl[l], wlo, whi, sig[l][:2], want[:2]))
                        break
            out.applies('lee-all-or-nothing')
            for l in range(nl):
                if np.any(sig[l] != 0.0) and not close(sig[l], want, rtol=1e-10, atol=1e-300):
                    out.fail(('lee-all-or-nothing') + sfx, 'layer %d carries neither 0 nor the declared law' % l)
                    break
            nt[0] = nt[0] or bool((not inverted) and wlo > ends[0] and whi < ends[1] and 0 < centre_in.sum() < nl)
            return
        # grey haze
        mix = case['mix']
        ov = np.maximum(0.0, np.minimum(np.log10(whi), np.log10(lay_hi)) - np.maximum(np.log10(wlo), np.log10(lay_lo)))
        width = np.log10(lay_hi) - np.log10(lay_lo)
        overlapping = ov > 1e-9 * width
        full = ov >= width * (1 - 1e-9)
        out.applies('flat-grey')
        if not np.all(sig == sig[:, :1]):
            out.fail(('flat-grey') + sfx, 'grey haze opacity depends on wavenumber')
        out.applies('flat-bounded')
        if np.any(sig > mix * (1 + 1e-12)):
            out.fail(('flat-bounded') + sfx, 'opacity %r above the declared %r' % (float(sig.max()), mix))
        out.applies('flat-overlapping-positive')
        if np.any(sig[overlapping, 0] <= 0.0):
            l = int(np.where(overlapping & (sig[:, 0] <= 0))[0][0])
            out.fail(('flat-overlapping-positive@top=%s,bottom=%s' % (case['top'][0], case['bottom'][0])) + sfx,
                     'layer %d overlaps the window by %.3g dex but carries no opacity' % (l, ov[l]))
        if np.any(full):
            out.applies('flat-magnitude')
            if not close(sig[full, 0], mix * np.ones(int(full.sum())), rtol=1e-9):
                out.fail(('flat-magnitude@top=%s,bottom=%s' % (case['top'][0], case['bottom'][0])) + sfx,
                         'a layer wholly inside the window carries %s, declared %r' % (sig[full, 0][:3], mix))
        elif np.any(overlapping):
            out.applies('flat-magnitude')
            # equally thick layers: the one overlapping most; otherwise (array profiles) the one with the largest share of
            # itself inside the window -- either way the strongest layer carries the declared value and none carries more
            l = int(np.argmax(ov)) if np.ptp(np.abs(np.diff(np.log10(Lv)))) <= 1e-9 * np.max(np.abs(np.diff(np.log10(Lv)))) else int(np.argmax(sig[:, 0]))
            if not close(sig[l, 0], mix, rtol=1e-9):
                out.fail(('flat-magnitude@largest-overlap') + sfx, 'layer of largest overlap carries %r, declared %r' % (sig[l, 0], mix))
        partial = overlapping & ~full
        nt[0] = nt[0] or bool((not inverted) and wlo > ends[0] and whi < ends[1] and np.any(partial))
        return

    judge_haze(sig, Pl, Lv, '')
    # history: the pressure range of the SAME built model is moved through its fitting parameters (same layer count) and
    # the model evaluated again: the haze must sit in its declared window on the levels as they now are
    out.applies('haze-range-moved')
    try:
        mv = case.get('range_move', [30.0, 10.0])
        if 'atm_max_pressure' not in m.fittingParameters:
            raise CutError('an array profile has no range to move')
        new_max, new_min = float(m['atm_max_pressure']) * mv[0], float(m['atm_min_pressure']) * mv[1]
        if new_max < 3.0 * new_min:
            raise CutError('moved range would collapse')        # a thin atmosphere moved onto itself: no legal grid, no verdict
        m['atm_max_pressure'] = new_max
        m['atm_min_pressure'] = new_min
        with np.errstate(all='ignore'):
            cut(out, 'model@range-moved', m.model)
        judge_haze(np.asarray(contrib.sigma_xsec, dtype=float), np.array(m.pressureProfile, dtype=float, copy=True),
                   np.array(m.pressure.pressure_profile_levels, dtype=float, copy=True), ',range-moved')
    except CutError:
        pass
    out.nontrivial = nt[0]
    return out
