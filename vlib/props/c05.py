"""C05 — spectral binning is an overlap-weighted mean of the native spectrum."""
import math
import numpy as np
from hypothesis import strategies as st
from vlib import strategies as S

from vlib.runner import Outcome, cut, CutError, close, maxrel

ID = 'C05'
TITLE = 'spectral binning'
CASES = {'quick': 1200, 'thorough': 160000}
SHARDS = {'quick': 1, 'thorough': 16}
RULE = ('Generated: native grid (linear / log / constant-R with implied mid-point widths, or explicit '
        'centre+width lists of ordered non-overlapping bins with gaps, 2-60 points), target grid of 1-12 '
        'distinct centres placed from 30% below to 30% above the native range with independent widths '
        '0.05x-20x the typical native width (so targets overlap each other, leave gaps, are narrower or '
        'wider than native bins, or fall outside), 1-D or 2-D spectra, optional errors, and a drawn '
        'permutation of native points (spectrum, error and widths together) and of target points.  '
        'Non-trivial = some target bin overlaps >=2 native bins, at least one of them partially, with a '
        'non-constant spectrum over them; distinct by case hash.'
        ' The same binner is then re-used: on a rescaled native grid, on the same centres with other widths / another spectrum / the first widths again / no widths, and on a grid with the same end points and count but other interior spacing.')
ASSUMPTIONS = [
    'a native bin is [centre-width/2, centre+width/2]; when no widths are passed the width is the '
    'mid-point width (compute_bin_edges convention documented in Binner.bindown)',
    'values compared with rtol 1e-10 (+1e-13*max|spectrum|); bins whose total overlap is below 1e-9 of '
    'their width are not judged',
    'SimpleBinner: native points closer than 1e-9 (relative) to a mid-point edge are not judged, since '
    'the statement does not say which side an edge point belongs to; empty target bins are not judged',
    'tuple layout returned by bindown is (grid, values, error, widths) as every binner in the tree returns it',
]
RULE = RULE + ' ' + 'The spectrum and errors also arrive as integer arrays, single-precision arrays, read-only arrays and non-contiguous views of the same numbers.'
REQUIRED = {'refused-call-then-reuse': 0.3, 'input-form:integer': 0.1, 'input-form:float32': 0.05, 'native:explicit': 0.1, 'perm-native': 0.3, 'perm-target': 0.2, 'two-d': 0.15,
            'errors': 0.15, 'target:partly-outside': 0.05, 'target:wholly-outside': 0.03}
# coverage-guided extra (thorough tier): pure-Python taurex modules on this property's path, instrumented by atheris
FUZZ = {'include': ['taurex.binning', 'taurex.util.util'], 'runs': 40000, 'workers': 4}

fl = st.floats


@st.composite
def _case(draw):
    kind = draw(st.sampled_from(['linear', 'log', 'constR', 'explicit', 'explicit']))
    n = draw(S.ints(2, 60))
    start = draw(fl(10.0, 5000.0))
    nat = {'kind': kind, 'n': n, 'start': start}
    if kind == 'linear':
        nat['step'] = draw(fl(0.01, 50.0))
    elif kind == 'log':
        nat['ratio'] = draw(fl(1.0005, 1.2))
    elif kind == 'constR':
        nat['R'] = draw(fl(5.0, 2000.0))
    else:
        nat['bins'] = draw(st.lists(st.tuples(fl(0.0, 3.0), fl(0.05, 5.0)), min_size=n, max_size=n))
        nat['gapp'] = draw(st.sampled_from([0.0, 0.3, 1.0]))
    nt = draw(S.ints(1, 12))
    targ = draw(st.lists(st.tuples(fl(-0.3, 1.3), fl(0.05, 20.0)), min_size=nt, max_size=nt))
    two_d = draw(st.sampled_from([0, 0, 0, 2, 3]))
    rows = max(two_d, 1)
    spec = draw(st.lists(st.lists(fl(-1e3, 1e3), min_size=n, max_size=n), min_size=rows, max_size=rows))
    spec2 = draw(st.lists(fl(-1e3, 1e3), min_size=n, max_size=n))
    err = draw(st.lists(fl(1e-6, 1e2), min_size=n, max_size=n)) if draw(st.sampled_from([True, True, False])) else None
    return {
        'native': nat, 'pass_widths': draw(st.booleans()), 'target': targ,
        'scalar_width': draw(st.one_of(st.none(), st.none(), fl(0.05, 20.0))),
        'implied_target_width': draw(st.sampled_from([False, False, True])),
        'two_d': two_d, 'spec': spec, 'spec2': spec2, 'err': err,
        'perm_n': draw(S.perm(list(range(n)))),
        'perm_t': draw(S.perm(list(range(nt)))),
        'ab': [draw(fl(-5, 5)), draw(fl(-5, 5))], 'regrid': draw(fl(0.3, 3.0)), 'const': draw(fl(-1e6, 1e6)),
        # the form in which the (numerically identical) spectrum and errors arrive
        'form': draw(S.pick(['float64', 'int64', 'float64', 'float32', 'readonly', 'strided', 'float64', 'int32'])),
    }


def strategy(tier):
    return _case()


def native_grid(nat):
    n = nat['n']
    k = nat['kind']
    if k == 'linear':
        wn = nat['start'] + nat['step'] * np.arange(n)
        return wn, None
    if k == 'log':
        wn = nat['start'] * nat['ratio'] ** np.arange(n)
        return wn, None
    if k == 'constR':
        R = nat['R']
        q = (2 * R + 1) / (2 * R - 1)
        wn = nat['start'] * q ** np.arange(n)
        return wn, wn / R
    edge = nat['start']
    c, w = [], []
    for gap, width in nat['bins']:
        lo = edge + (gap * nat['gapp'])
        hi = lo + width
        c.append((lo + hi) / 2)
        w.append(hi - lo)
        edge = hi
    return np.array(c), np.array(w)


def midpoint_widths(x):
    """width implied by mid-points between neighbouring centres (ends mirrored)."""
    x = np.asarray(x, dtype=float)
    e = [x[0] - (x[1] - x[0]) / 2]
    for i in range(len(x) - 1):
        e.append((x[i] + x[i + 1]) / 2)
    e.append(x[-1] + (x[-1] - x[-2]) / 2)
    e = np.array(e)
    return e, np.abs(np.diff(e))


def overlap_mean(nlo, nhi, f, lo, hi, err=None):
    """explicit-loop reference.  f: (..., n).  returns value(s), error, total overlap,
    indices with overlap, whether any overlap is partial."""
    tot = 0.0
    acc = np.zeros(f.shape[:-1])
    e2 = 0.0
    idx = []
    partial = False
    for j in range(len(nlo)):
        ov = min(hi, nhi[j]) - max(lo, nlo[j])
        if ov > 0:
            tot += ov
            acc = acc + ov * f[..., j]
            if err is not None:
                e2 += ov * ov * err[j] * err[j]
            idx.append(j)
            if ov < (nhi[j] - nlo[j]) * (1 - 1e-12):
                partial = True
    if tot <= 0:
        return None, None, 0.0, idx, partial
    return acc / tot, (math.sqrt(e2) / tot if err is not None else None), tot, idx, partial


def check(case):
    from taurex.binning import FluxBinner, SimpleBinner, NativeBinner
    out = Outcome()
    nat = case['native']
    wn, w_exp = native_grid(nat)
    n = len(wn)
    if w_exp is None:
        pass_w = False
        _, w = midpoint_widths(wn)
    else:
        pass_w = True if nat['kind'] == 'explicit' else case['pass_widths']
        w = w_exp if pass_w else midpoint_widths(wn)[1]
    out.cls('native:' + nat['kind'])
    nlo, nhi = wn - w / 2, wn + w / 2
    typ = float(np.median(w))
    span_lo, span_hi = float(nlo[0]), float(nhi[-1])

    # target grid: distinct centres
    tc, tw = [], []
    for frac, fac in case['target']:
        c = span_lo + frac * (span_hi - span_lo)
        if c <= 0 or any(abs(c - x) <= 1e-9 * abs(x) for x in tc):
            continue
        tc.append(c)
        tw.append(fac * typ)
    if not tc:
        out.cls('degenerate-target')
        return out
    tc, tw = np.array(tc), np.array(tw)
    nt = len(tc)
    sw = case['scalar_width']
    implied = case['implied_target_width'] and nt >= 2
    if implied:
        twidth_arg = None
        order = np.argsort(tc)
        tw_sorted = midpoint_widths(tc[order])[1]
        tw = np.empty(nt)
        tw[order] = tw_sorted
        out.cls('target-width:implied')
    elif sw is not None:
        twidth_arg = float(sw * typ)
        tw = np.ones(nt) * twidth_arg
        out.cls('target-width:scalar')
    else:
        twidth_arg = 'array'
        out.cls('target-width:array')

    pt = case['perm_t']
    pt = np.array([i for i in pt if i < nt]) if pt is not None else np.arange(nt)
    if len(pt) != nt:
        pt = np.arange(nt)
    if not np.array_equal(pt, np.arange(nt)):
        out.cls('perm-target')
    pn = np.array(case['perm_n']) if case['perm_n'] is not None else np.arange(n)
    if not np.array_equal(pn, np.arange(n)):
        out.cls('perm-native')

    spec = np.array(case['spec'], dtype=float)
    if not case['two_d']:
        spec = spec[0]
    else:
        out.cls('two-d')
    # errors accompany 1-D spectra only (2-D input is the optical-depth array, which has none)
    err = np.array(case['err'], dtype=float) if (case['err'] is not None and not case['two_d']) else None
    if err is not None:
        out.cls('errors')
    form = case.get('form', 'float64')
    if form != 'float64':
        out.cls('input-form:' + ('integer' if form.startswith('int') else form))
    if form.startswith('int'):
        spec = np.round(spec)                    # whole numbers, handed over as an integer array below
        err = np.ceil(err) if err is not None else None
    elif form == 'float32':
        spec = spec.astype(np.float32).astype(float)
        err = err.astype(np.float32).astype(float) if err is not None else None
    fmax = max(float(np.max(np.abs(spec))), 1e-300)

    def as_given(a):
        """the same numbers in the drawn form"""
        if a is None:
            return None
        if form.startswith('int') or form == 'float32':
            return a.astype({'int64': np.int64, 'int32': np.int32, 'float32': np.float32}[form])
        if form == 'readonly':
            a = a.copy()
            a.setflags(write=False)
            return a
        if form == 'strided':
            return np.repeat(a, 2, axis=-1)[..., ::2]
        return a

    def make_binner():
        wa = tw[pt] if twidth_arg == 'array' else twidth_arg
        return FluxBinner(tc[pt].copy(), wa.copy() if isinstance(wa, np.ndarray) else wa)

    def run(b, f, e=None, permute=True, given=False):
        p = pn if permute else np.arange(n)
        gw = (w[p].copy() if pass_w else None)
        conv = as_given if given else (lambda a: a)
        return b.bindown(wn[p].copy(), conv(f[..., p].copy()), grid_width=gw,
                         error=(conv(e[p].copy()) if e is not None else None))

    try:
        fb = cut(out, 'flux-construct', make_binner)
        res = cut(out, 'flux-bindown', run, fb, spec, err, True, True)
    except CutError:
        return out
    order = np.argsort(tc)
    stc, stw = tc[order], tw[order]
    out.applies('flux-grid')
    if not (np.array_equal(np.asarray(res[0]), stc)):
        out.fail('flux-grid@centres', 'returned grid is not the sorted target grid')
        return out
    if not close(np.asarray(res[3]) * np.ones(nt), stw, rtol=1e-12):
        out.fail('flux-grid@widths', 'returned widths %s want %s' % (res[3], stw))
    got = np.asarray(res[1], dtype=float)
    if got.shape != spec.shape[:-1] + (nt,):
        out.fail('flux-shape', 'got %s' % (got.shape,))
        return out

    any_nt = False
    n_out_part = n_out_whole = 0
    atol = 1e-13 * fmax
    # single-precision input carries single-precision arithmetic into the squares of the errors: judged to 1e-6
    rt_form = 1e-6 if form == 'float32' else 1e-10
    for i in range(nt):
        lo, hi = stc[i] - stw[i] / 2, stc[i] + stw[i] / 2
        if hi < span_lo or lo > span_hi:
            n_out_whole += 1
        elif lo < span_lo or hi > span_hi:
            n_out_part += 1
        val, e_ref, tot, idx, partial = overlap_mean(nlo, nhi, spec, lo, hi, err)
        if tot <= 1e-9 * (hi - lo):
            continue
        out.applies('flux-value')
        g = got[..., i]
        if not close(g, val, rtol=rt_form, atol=atol):
            out.fail('flux-value@%s,%s' % ('widths' if pass_w else 'nowidths',
                                          'perm' if not np.array_equal(pn, np.arange(n)) else 'sorted'),
                     'bin %d [%.6g,%.6g] got %s want %s' % (i, lo, hi, g, val))
        sub = spec[..., idx]
        out.applies('flux-bounds')
        if np.any(g < sub.min(axis=-1) - atol - 1e-10 * np.abs(sub.min(axis=-1))) or \
           np.any(g > sub.max(axis=-1) + atol + 1e-10 * np.abs(sub.max(axis=-1))):
            out.fail('flux-bounds', 'bin %d got %s outside [%s,%s]' % (i, g, sub.min(axis=-1), sub.max(axis=-1)))
        if err is not None:
            out.applies('flux-error')
            ge = np.asarray(res[2], dtype=float)
            if ge.shape != (nt,) or not close(ge[i], e_ref, rtol=rt_form):
                out.fail('flux-error', 'bin %d got %s want %s' % (i, ge[i] if ge.shape == (nt,) else ge.shape, e_ref))
        if len(idx) >= 2 and partial and np.ptp(sub) > 1e-9 * fmax:
            any_nt = True
    if n_out_part:
        out.cls('target:partly-outside')
    if n_out_whole:
        out.cls('target:wholly-outside')
    out.nontrivial = any_nt

    judged = [i for i in range(nt)
              if overlap_mean(nlo, nhi, spec, stc[i] - stw[i] / 2, stc[i] + stw[i] / 2)[2] > 1e-9 * stw[i]]
    try:
        # permutation invariance against the sorted call
        if not np.array_equal(pn, np.arange(n)) or not np.array_equal(pt, np.arange(nt)):
            out.applies('flux-order')
            wa = tw[order] if twidth_arg == 'array' else twidth_arg
            fb2 = FluxBinner(stc.copy(), wa)
            res2 = cut(out, 'flux-bindown', run, fb2, spec, err, False, True)
            if not close(np.asarray(res2[1])[..., judged], got[..., judged], rtol=1e-12, atol=atol):
                out.fail('flux-order@%s' % ('widths' if pass_w else 'nowidths'),
                         'permuted %s sorted %s' % (got[..., judged], np.asarray(res2[1])[..., judged]))
        # constant stays constant
        out.applies('flux-constant')
        cst = np.ones(n) * case['const']
        rc = np.asarray(cut(out, 'flux-bindown', run, fb, cst)[1])
        if not close(rc[judged], case['const'] * np.ones(len(judged)), rtol=1e-12, atol=1e-300):
            out.fail('flux-constant', 'constant %r binned to %s' % (case['const'], rc[judged]))
        # linearity
        out.applies('flux-linear')
        a, b = case['ab']
        f1 = spec if spec.ndim == 1 else spec[0]
        f2 = np.array(case['spec2'], dtype=float)
        r1 = np.asarray(cut(out, 'flux-bindown', run, fb, f1)[1])
        r2 = np.asarray(cut(out, 'flux-bindown', run, fb, f2)[1])
        r3 = np.asarray(cut(out, 'flux-bindown', run, fb, a * f1 + b * f2)[1])
        scale = abs(a) * np.max(np.abs(f1)) + abs(b) * np.max(np.abs(f2))
        if not close(r3[judged], (a * r1 + b * r2)[judged], rtol=1e-10, atol=1e-12 * scale + 1e-290):
            out.fail('flux-linear', 'max rel %.3e' % maxrel(r3[judged], (a * r1 + b * r2)[judged]))
        # bin_model
        if not pass_w:
            out.applies('flux-bin_model')
            rm = cut(out, 'flux-bin_model', fb.bin_model, (wn[pn].copy(), f1[pn].copy(), None, None))
            if not close(np.asarray(rm[1])[judged], r1[judged], rtol=1e-12, atol=atol) or \
               not np.array_equal(np.asarray(rm[0]), stc):
                out.fail('flux-bin_model', 'bin_model differs from bindown')
        # a call that is refused (native grid in another order with a width array one element short: the caller catches
        # the error) leaves nothing behind: the first call repeated on the same binner gives the first result again
        if n >= 3:
            refused = False
            try:
                with np.errstate(all='ignore'):
                    fb.bindown(wn[::-1].copy(), f1[::-1].copy(), grid_width=w[:-1].copy())
            except Exception:
                refused = True
            if refused:
                out.cls('refused-call-then-reuse')
                out.applies('flux-after-refused-call')
                ra = cut(out, 'flux-bindown', run, fb, spec, err, True, True)
                if not close(np.asarray(ra[1], dtype=float)[..., judged], got[..., judged], rtol=1e-12, atol=atol):
                    out.fail('flux-after-refused-call', 'after a refused call the first call repeated gives %s, before %s'
                             % (np.asarray(ra[1], dtype=float)[..., judged][:3], got[..., judged][:3]))
        # the same binner instance re-used on a different native grid of the same
        # length (a binner is applied to many spectra during a run): no state may
        # carry over from the previous call
        out.applies('flux-reuse')
        k = case.get('regrid', 1.37)
        wn2 = wn[0] * (1 + 0.01 * k) + (wn - wn[0]) * k
        w2 = w * k if pass_w else midpoint_widths(wn2)[1]
        lo2, hi2 = wn2 - w2 / 2, wn2 + w2 / 2
        if n >= 3:
            # ... the first request on that second grid being one that is refused (a spectrum one element short; the caller
            # catches the error and asks again properly)
            try:
                with np.errstate(all='ignore'):
                    fb.bindown(wn2[pn].copy(), f1[pn][:-1].copy(), grid_width=(w2[pn].copy() if pass_w else None))
            except Exception:
                out.cls('refused-call-on-second-grid')
        r5 = cut(out, 'flux-bindown', fb.bindown, wn2[pn].copy(), f1[pn].copy(), grid_width=(w2[pn].copy() if pass_w else None))
        g5 = np.asarray(r5[1], dtype=float)
        for i in range(nt):
            lo, hi = stc[i] - stw[i] / 2, stc[i] + stw[i] / 2
            val, _, tot, idx, _ = overlap_mean(lo2, hi2, f1, lo, hi)
            if tot <= 1e-9 * (hi - lo):
                continue
            if not close(g5[i], val, rtol=1e-10, atol=atol):
                out.fail('flux-reuse@%s' % ('widths' if pass_w else 'nowidths'),
                         'second native grid: bin %d got %r want %r' % (i, g5[i], val))
        # ... and on the SAME native centres with other explicit widths / another spectrum / the first widths
        # again: what is binned must follow the arguments of the current call only
        out.applies('flux-reuse-widths')
        shr = 0.35 + 0.6 * ((np.arange(n) * 0.6180339887498949) % 1.0)
        for lab, ww, ff in (('narrowed', w * shr, f1), ('first-again', w, f1), ('other-spectrum', w * shr, f1[::-1].copy()),
                            ('no-widths', None, f1)):
            if ww is None:
                if n < 2:
                    continue
                ww_ref = midpoint_widths(wn)[1]
                # implied widths of unevenly spaced centres make centre +- w/2 bins that overlap each other:
                # outside the property's domain (non-overlapping native bins)
                if np.any((wn - ww_ref / 2)[1:] < (wn + ww_ref / 2)[:-1] * (1 - 1e-12)):
                    continue
            else:
                ww_ref = ww
            r6 = cut(out, 'flux-bindown', fb.bindown, wn[pn].copy(), ff[pn].copy(),
                     grid_width=(ww[pn].copy() if ww is not None else None))
            g6 = np.asarray(r6[1], dtype=float)
            lo6, hi6 = wn - ww_ref / 2, wn + ww_ref / 2
            for i in range(nt):
                lo, hi = stc[i] - stw[i] / 2, stc[i] + stw[i] / 2
                val, _, tot, idx, _ = overlap_mean(lo6, hi6, ff, lo, hi)
                if tot <= 1e-9 * (hi - lo):
                    continue
                if not close(g6[i], val, rtol=1e-10, atol=atol):
                    out.fail('flux-reuse-widths@%s' % lab, 'same centres, %s: bin %d got %r want %r' % (lab, i, g6[i], val))
        # ... and on a native grid with the same number of points and the same end points but other interior
        # spacing, widths implied both times (the way bin_model calls it)
        if n >= 4:
            t_ = (wn - wn[0]) / (wn[-1] - wn[0])
            wn3 = wn[0] + (wn[-1] - wn[0]) * (0.4 * t_ + 0.6 * t_ ** 2)
            wn3[0], wn3[-1] = wn[0], wn[-1]
            ok_grids = True
            for g_ in (wn, wn3):
                wg_ = midpoint_widths(g_)[1]
                # implied (mid-point) widths of a smoothly varying grid give centre +- w/2 bins whose lower and upper
                # edges both increase (only the mirrored end bins overlap their neighbour a little): that is how every
                # log-spaced native grid is binned; wilder grids are outside the domain
                if np.any(np.diff(g_) <= 0) or np.any(np.diff(g_ - wg_ / 2) <= 0) or np.any(np.diff(g_ + wg_ / 2) <= 0):
                    ok_grids = False
            if ok_grids:
                out.applies('flux-reuse-endpoints')
                cut(out, 'flux-bindown', fb.bindown, wn[pn].copy(), f1[pn].copy())
                r7 = cut(out, 'flux-bindown', fb.bindown, wn3[pn].copy(), f1[pn].copy())
                g7 = np.asarray(r7[1], dtype=float)
                w3 = midpoint_widths(wn3)[1]
                for i in range(nt):
                    lo, hi = stc[i] - stw[i] / 2, stc[i] + stw[i] / 2
                    val, _, tot, idx, _ = overlap_mean(wn3 - w3 / 2, wn3 + w3 / 2, f1, lo, hi)
                    if tot <= 1e-9 * (hi - lo):
                        continue
                    if not close(g7[i], val, rtol=1e-10, atol=atol):
                        out.fail('flux-reuse-endpoints', 'same end points and count, other spacing: bin %d got %r want %r' % (i, g7[i], val))
                        break
    except CutError:
        pass

    # --- SimpleBinner: plain mean of native points between mid-point edges -----
    if nt >= 2:
        edges, wmid = midpoint_widths(stc)
        rel = np.min(np.abs(wn[:, None] - edges[None, :]) / np.maximum(np.abs(edges[None, :]), 1e-300))
        if rel > 1e-9:
            out.cls('simple-judged')
            try:
                sb = cut(out, 'simple-construct', SimpleBinner, stc.copy())
                rs = cut(out, 'simple-bindown', sb.bindown, wn[pn].copy(), spec[..., pn].copy())
                gs = np.asarray(rs[1], dtype=float)
                out.applies('simple-grid')
                if not np.array_equal(np.asarray(rs[0]), stc) or not close(rs[3], wmid, rtol=1e-12):
                    out.fail('simple-grid', 'grid/width not the target grid and mid-point widths')
                if gs.shape != spec.shape[:-1] + (nt,):
                    out.fail('simple-shape', 'got %s' % (gs.shape,))
                else:
                    for i in range(nt):
                        inside = [j for j in range(n) if edges[i] < wn[j] < edges[i + 1]]
                        if not inside:
                            continue
                        out.applies('simple-mean')
                        want = np.zeros(spec.shape[:-1])
                        for j in inside:
                            want = want + spec[..., j]
                        want = want / len(inside)
                        if not close(gs[..., i], want, rtol=1e-10, atol=atol):
                            out.fail('simple-mean@%s' % ('2d' if spec.ndim > 1 else '1d'),
                                     'bin %d got %s want %s' % (i, gs[..., i], want))
                # widths handed to the histogram binner describe the bins in the output; the bins themselves stay the
                # mid-point ones, so the values do not depend on them
                out.applies('simple-widths-given')
                sbw = cut(out, 'simple-construct', SimpleBinner, stc.copy(), stw.copy())
                rsw = cut(out, 'simple-bindown', sbw.bindown, wn[pn].copy(), spec[..., pn].copy())
                gsw = np.asarray(rsw[1], dtype=float)
                if gsw.shape != gs.shape or not np.array_equal(np.isnan(gsw), np.isnan(gs)) or \
                        not close(np.nan_to_num(gsw), np.nan_to_num(gs), rtol=1e-12, atol=atol):
                    out.fail('simple-widths-given', 'explicit target widths changed the histogram means: %s vs %s' % (gsw[..., :4], gs[..., :4]))
            except CutError:
                pass
        else:
            out.cls('simple-skipped-edge')

    # --- NativeBinner: identity --------------------------------------------------
    out.applies('native-identity')
    try:
        a0, a1, a2, a3 = wn[pn].copy(), spec[..., pn].copy(), (err[pn].copy() if err is not None else None), w[pn].copy()
        rn = cut(out, 'native-bindown', NativeBinner().bindown, a0, a1, grid_width=a3, error=a2)
        same = (np.array_equal(rn[0], wn[pn]) and np.array_equal(rn[1], spec[..., pn]) and
                ((rn[2] is None) if err is None else np.array_equal(rn[2], err[pn])) and
                np.array_equal(rn[3], w[pn]))
        if not same:
            out.fail('native-identity', 'NativeBinner changed its input')
    except CutError:
        pass
    return out
