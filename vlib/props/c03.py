"""C03 — optical depth composes additively over contributions and species."""
import copy
import math
import numpy as np
from hypothesis import strategies as st

from vlib.runner import Outcome, cut, CutError, close, maxrel
from vlib import synth, ref, strategies as S
from vlib.props.c01 import RSUN

ID = 'C03'
TITLE = 'additive composition of optical depth'
CASES = {'quick': 400, 'thorough': 24000}
SHARDS = {'quick': 1, 'thorough': 16}
RULE = ('Generated: transmission world with 1-3 absorbing molecules (constant or height-varying abundance), '
        'a drawn subset and insertion ORDER of {Absorption, CIA, Rayleigh, SimpleClouds, FlatMie, LeeMie}, '
        'optionally an extra tabulated species at exactly zero abundance, and a probe history for the '
        'per-component evaluation (fresh model / after model() / after model() on a sub-grid / after a '
        'cloud-pressure change).  Non-trivial = >=2 contributions, one of them with >=2 components, and a '
        'transmittance strictly inside (0.01,0.99) somewhere; distinct by case hash.'
        ' The contribution pool includes the H- (HydrogenIon) continuum with constant H and e- abundances.')
ASSUMPTIONS = [
    'product rule compared in -log(transmittance) with rtol 1e-9 on layers that cannot trigger the cut-off; on '
    'layers whose optical depth exceeds 10 at every wavenumber only "product <= model <= e^-10" is asserted',
    'per-component weighted opacities are observed through the public prepare_each() generator',
    'Rayleigh and Mie components are checked for proportionality to abundance / against C19, not against an independent cross-section',
    'H- (HydrogenIon) is generated with constant H and e- abundances: its absorption law is outside this property and is not judged; the product rule, order independence, single component and proportionality to the electron abundance are',
]
RULE = RULE + ' ' + "Also: a chemistry that hands out the arrays it keeps instead of copies (class chemistry:stored); each source's own transmittance against exp(-sum sigma x density^(1|2) x chord) (source-path-integral); integer-axis world forms. Round 10: the species that sat at exactly zero abundance is raised on the same live model and the result compared with a model built with that abundance (zero-species-raised)."
REQUIRED = {'zero-species-raised': 0.08, 'failed-evaluation-then-repaired': 0.06, 'chemistry:stored': 0.2, 'opacity:ktables': 0.06, 'has-hminus': 0.1, 'probe:contrib-first': 0.08, 'ncontrib>=2': 0.5, 'multi-component': 0.4, 'zero-species': 0.15, 'probe:fresh': 0.1,
            'probe:subgrid': 0.1, 'probe:param-change': 0.1}
POOL = ['Absorption', 'CIA', 'Rayleigh', 'SimpleClouds', 'FlatMie', 'LeeMie', 'HydrogenIon']


@st.composite
def _case(draw):
    probe = draw(st.sampled_from(['after-model', 'fresh', 'subgrid', 'param-change', 'contrib-first']))
    k = draw(S.ints(1, 5))
    order = draw(S.perm(POOL))[:k]
    if 'Absorption' not in order and draw(st.booleans()):
        order = ['Absorption'] + list(order)
    zero = draw(st.sampled_from([False, False, True]))
    mie = {'flat_mix': 10.0 ** draw(st.floats(-27, -21)), 'flat_lo': draw(st.floats(0.05, 0.45)),
           'flat_hi': draw(st.floats(0.55, 0.95)),
           'lee_radius': draw(st.floats(0.01, 5.0)), 'lee_q': draw(st.floats(1.0, 100.0)),
           'lee_mix': 10.0 ** draw(st.floats(-14, -6))}
    w = draw(S.world(layers=(2, 25), nwn=(2, 10), extras=('CIA', 'SimpleClouds'),
                     mags=['mixed', 'mixed', 'transparent', 'saturated']))
    w['extras'] = ['CIA', 'SimpleClouds']
    w['ktables'] = draw(st.sampled_from([True, False]))
    # a chemistry that hands out the arrays it keeps instead of copies (same numbers)
    w['chem_form'] = draw(st.sampled_from(['copies', 'stored', 'copies', 'stored']))
    if draw(st.booleans()):
        w['wn0'] = w['wn0'] * 6.0       # towards the visible, where Rayleigh scattering and hazes carry real optical depth
    # H- needs atomic hydrogen and free electrons in the mixture
    w['hminus'] = {'H': draw(st.floats(-4.0, -1.5)), 'e': draw(st.floats(-9.0, -4.0))} if 'HydrogenIon' in order else None
    return {'world': w, 'order': list(order), 'order2': draw(S.perm(list(order))), 'zero': zero,
            'mie': mie, 'probe': probe, 'new_path': draw(st.booleans()),
            # a first evaluation that fails (a collision pair whose partner the mixture does not hold; the caller catches
            # the error and takes the pair out again) before the model is used
            'cia_failure': draw(S.pick([False, True, False, True]))}


def strategy(tier):
    return _case()


def make_contribs(W, names, mie):
    from taurex.contributions import FlatMieContribution, LeeMieContribution
    out = []
    lo, hi = math.log10(W.pmin), math.log10(W.pmax)
    for n in names:
        if n == 'FlatMie':
            out.append(FlatMieContribution(flat_mix_ratio=mie['flat_mix'],
                                           flat_bottomP=10.0 ** (lo + mie['flat_hi'] * (hi - lo)),
                                           flat_topP=10.0 ** (lo + mie['flat_lo'] * (hi - lo))))
        elif n == 'LeeMie':
            out.append(LeeMieContribution(lee_mie_radius=mie['lee_radius'], lee_mie_q=mie['lee_q'],
                                          lee_mie_mix_ratio=mie['lee_mix']))
        elif n == 'HydrogenIon':
            from taurex.contributions.hm import HydrogenIon
            out.append(HydrogenIon())
        else:
            out.extend(synth.make_contributions(W, [n]))
    return out


def neglog(t):
    with np.errstate(all='ignore'):
        return -np.log(np.asarray(t, dtype=float))


def compare_trans(out, label, model_t, prod_t):
    """product rule with the licensed cut-off"""
    model_t = np.asarray(model_t, dtype=float)
    prod_t = np.asarray(prod_t, dtype=float)
    if model_t.shape != prod_t.shape:
        out.fail(label + '@shape', '%s vs %s' % (model_t.shape, prod_t.shape))
        return
    a, b = neglog(model_t), neglog(prod_t)
    for l in range(model_t.shape[0]):
        if np.min(a[l]) > 10.0 * (1 - 1e-6):
            if np.any(prod_t[l] > model_t[l] * (1 + 1e-9) + 1e-300) or np.any(model_t[l] > math.exp(-10.0) * (1 + 1e-5)):
                out.fail(label + '@saturated-layer', 'layer %d product %s model %s' % (l, prod_t[l][:3], model_t[l][:3]))
                return
            continue
        # transmittances below 1e-300 are denormal (or zero): they carry few or no significant digits, so -log of
        # them is only compared for being beyond that point in both
        tiny = (model_t[l] < 1e-300) & (prod_t[l] < 1e-300)
        fin = np.isfinite(a[l]) & np.isfinite(b[l]) & ~tiny
        if np.any((np.isfinite(a[l]) != np.isfinite(b[l])) & ~tiny) or \
                not close(a[l][fin], b[l][fin], rtol=1e-9, atol=1e-12):
            out.fail(label, 'layer %d -log T model %s product %s' % (l, a[l][:3], b[l][:3]))
            return


def check(case):
    out = Outcome()
    w = case['world']
    names = list(case['order'])
    mie = case['mie']
    kw = {'new_path_method': case['new_path']}
    out.cls('probe:' + case['probe'])
    out.cls('chemistry:' + w.get('chem_form', 'copies'))
    try:
        wz = copy.deepcopy(w)
        if case['zero']:
            out.cls('zero-species')
            used = {g['mol'] for g in w['gases']}
            spare = [m for m in S.MOLS if m not in used]
            if spare:
                donor = copy.deepcopy(w['gases'][0])
                donor.update({'mol': spare[0], 'logmix': None, 'logtop': None, 'zero': True})
                wz['gases'].append(donor)
        W = cut(out, 'build-world', build, wz)
        contribs = make_contribs(W, names, mie)
        if not contribs:
            out.cls('no-contribution')
            return out
        m = cut(out, 'build-model', synth.make_model, W, 'transmission', contribs, **kw)
        from vlib.props.c01 import zero_corner_ambiguous
        if zero_corner_ambiguous(W, m):
            out.cls('ambiguous-zero-corner')
            return out
        cnames = [c.name for c in m.contribution_list]
        out.cls('ncontrib>=2' if len(cnames) >= 2 else 'ncontrib=1')
        cia_c = [c for c in m.contribution_list if c.name == 'CIA']
        if case.get('cia_failure') and cia_c and W.cia_pair is not None:
            from taurex.cache import CIACache
            Tg_, tab_ = W.cia_table
            absent = '%s-Xe' % W.cia_pair.split('-')[0]                 # xenon is in no generated mixture
            CIACache().add_cia(synth.SynthCIA(absent, W.wn, Tg_, tab_ * 3.0))
            good_pairs = list(cia_c[0].ciaPairs)
            cia_c[0].ciaPairs = good_pairs + [absent]
            try:
                with np.errstate(all='ignore'):
                    m.model()
            except Exception:
                out.cls('failed-evaluation-then-repaired')
            cia_c[0].ciaPairs = good_pairs
        # ---- the per-component probe, possibly on a fresh model --------------------------
        sub = None
        changed = False
        with np.errstate(all='ignore'):
            if case['probe'] == 'fresh':
                full = cut(out, 'model_full_contrib@fresh', m.model_full_contrib)
                res = cut(out, 'model', m.model)
            elif case['probe'] == 'subgrid' and len(W.wn) >= 4:
                sub = W.wn[1:-1].copy()
                cut(out, 'model@subgrid', m.model, sub, True)
                full = cut(out, 'model_full_contrib@after-subgrid', m.model_full_contrib)
                res = cut(out, 'model', m.model)
            elif case['probe'] == 'param-change' and 'SimpleClouds' in cnames:
                cut(out, 'model', m.model)
                cl = [c for c in m.contribution_list if c.name == 'SimpleClouds'][0]
                cl.cloudsPressure = cl.cloudsPressure * 0.01
                changed = True
                full = cut(out, 'model_full_contrib@after-param-change', m.model_full_contrib)
                res = cut(out, 'model', m.model)
            elif case['probe'] == 'contrib-first':
                # run once, change a profile parameter, then ask for the decomposition BEFORE the
                # next model() call: it must describe the current parameters
                cut(out, 'model', m.model)
                mult = 3.0
                for pname in list(m.fittingParameters):
                    if pname in [g['mol'] for g in wz['gases'] if g.get('logtop') is None and not g.get('zero')]:
                        if m[pname] * mult < 0.2:
                            m[pname] = m[pname] * mult
                            wz_changed = (pname, mult)
                            break
                if 'T' in m.fittingParameters:
                    m['T'] = m['T'] * 0.8
                    wz_T = 0.8
                per = cut(out, 'model_contrib@before-model', m.model_contrib)
                full = cut(out, 'model_full_contrib', m.model_full_contrib)
                res = cut(out, 'model', m.model)
            else:
                res = cut(out, 'model', m.model)
                full = cut(out, 'model_full_contrib', m.model_full_contrib)
            if case['probe'] != 'contrib-first':
                per = cut(out, 'model_contrib', m.model_contrib)
    except CutError:
        return out
    wn, depth, trans, _ = res
    trans = np.asarray(trans, dtype=float)
    depth = np.asarray(depth, dtype=float)
    nl = trans.shape[0]

    # ---- product over contributions -----------------------------------------------------
    out.applies('product-over-contributions')
    prod = np.ones_like(trans)
    for name in per[1]:
        prod = prod * np.asarray(per[1][name][1], dtype=float)
    dup = len(set(cnames)) < len(cnames)
    if dup:
        out.cls('duplicate-contribution-name')
    compare_trans(out, 'product-over-contributions' + ('@duplicate-name' if dup else '') + (',contrib-first' if case['probe'] == 'contrib-first' else ''), trans, prod)
    if set(per[1].keys()) != set(cnames) or len(per[1]) != len(cnames):
        out.fail('product-over-contributions@names' + (',duplicate-name' if dup else ''),
                 '%s vs %s' % (sorted(per[1]), sorted(cnames)))

    # ---- product over components ----------------------------------------------------------
    multi = False
    dup = len(set(cnames)) < len(cnames)
    for name in per[1]:
        comps = full[1].get(name, [])
        if len(comps) >= 2:
            multi = True
        out.applies('product-over-components')
        t_c = np.asarray(per[1][name][1], dtype=float)
        if not comps:
            if not close(t_c, np.ones_like(t_c), rtol=0, atol=1e-15):
                out.fail('product-over-components@%s,no-components' % name, 'contribution absorbs but lists no component')
            continue
        p = np.ones_like(t_c)
        for comp in comps:
            p = p * np.asarray(comp[2], dtype=float)
        compare_trans(out, 'product-over-components@%s,%s%s' % (name, case['probe'], ',duplicate-name' if (dup and name == 'Mie') else ''), t_c, p)
    if multi:
        out.cls('multi-component')

    # ---- each component's weighted opacity ---------------------------------------------------
    T = np.asarray(m.temperatureProfile, dtype=float)
    P = np.asarray(m.pressureProfile, dtype=float)
    for c in m.contribution_list:
        try:
            comps = [(n, np.array(s, dtype=float, copy=True)) for n, s in
                     cut(out, 'prepare_each@' + c.name, lambda: list((n, np.array(s, copy=True))
                                                                     for n, s in c.prepare_each(m, W.wn)))]
        except CutError:
            continue
        if c.name == 'Absorption' and w.get('ktables'):
            out.cls('opacity:ktables')
        elif c.name == 'Absorption':
            for gas, sig in comps:
                out.applies('component-sigma')
                Tg, Pg, tab, _ = W.tables[gas]
                mix = np.asarray(m.chemistry.get_gas_mix_profile(gas), dtype=float)
                want = np.array([ref.interp_xsec_ref(tab, list(Tg), list(Pg), float(T[l]), float(P[l]), 'linear') * mix[l]
                                 for l in range(nl)])
                if sig.shape != want.shape or not close(sig, want, rtol=1e-9, atol=1e-13 * float(want.max()) + 1e-300):
                    out.fail('component-sigma@Absorption', '%s: opacity is not cross-section x mixing ratio' % gas)
            if set(g for g, _ in comps) != set(m.chemistry.activeGases):
                out.fail('component-sigma@Absorption,names', '%s vs %s' % ([g for g, _ in comps], m.chemistry.activeGases))
        elif c.name == 'CIA':
            for pair, sig in comps:
                out.applies('component-sigma')
                a, b = pair.split('-')
                Tg, tab = W.cia_table
                f = np.asarray(m.chemistry.get_gas_mix_profile(a)) * np.asarray(m.chemistry.get_gas_mix_profile(b))
                want = np.array([_lin_T(Tg, tab, float(T[l])) * f[l] for l in range(nl)])
                if not close(sig, want, rtol=1e-9, atol=1e-300):
                    out.fail('component-sigma@CIA', '%s: opacity is not coefficient x mix1 x mix2' % pair)
        elif c.name == 'HydrogenIon':
            # its absorption law is outside this property; what is inside: one component, proportional to the
            # abundance of the species it is made of (free electrons here), zero without them
            out.cls('has-hminus')
            if case['probe'] in ('contrib-first', 'param-change'):
                continue                # the judged model's parameters were moved by the probe
            out.applies('component-proportional')
            try:
                Wh = cut(out, 'build-world', build, wz, 0.25)
                mh = cut(out, 'build-model', synth.make_model, Wh, 'transmission', make_contribs(Wh, ['HydrogenIon'], mie), **kw)
                ch = mh.contribution_list[0]
                comps_h = list((n, np.array(s_, copy=True)) for n, s_ in ch.prepare_each(mh, Wh.wn))
                if len(comps) != 1 or len(comps_h) != 1 or not close(comps_h[0][1], 0.25 * comps[0][1], rtol=1e-9, atol=1e-300):
                    out.fail('component-proportional@HydrogenIon', 'a quarter of the electrons does not give a quarter of the opacity')
                build(wz)       # restore the registered tables of the judged world
            except CutError:
                pass
        elif c.name == 'Rayleigh':
            for gas, sig in comps:
                out.applies('component-proportional')
                mix = np.asarray(m.chemistry.get_gas_mix_profile(gas), dtype=float)
                if not close(sig * mix[0], sig[0][None, :] * mix[:, None], rtol=1e-12, atol=1e-300):
                    out.fail('component-proportional@Rayleigh', '%s: opacity not proportional to abundance' % gas)

    # ---- each source alone: its transmittance is the exponential of its own opacity integrated along the chord,
    # weighted by the number density (its square for collision-induced absorption).  Chord lengths are taken from the
    # model (they are judged in C01); cloud decks index layers instead of integrating and are judged in C19.
    try:
        dens = np.asarray(m.densityProfile, dtype=float)
        paths = [np.asarray(p_, dtype=float) for p_ in m.path_length]
        for c in m.contribution_list:
            if c.name not in per[1] or c.name == 'SimpleClouds' or (c.name == 'Absorption' and w.get('ktables')) or dup:
                continue
            with np.errstate(all='ignore'):
                cut(out, 'prepare@' + c.name, c.prepare, m, W.wn)     # the summed opacity of all its components (judged above)
            sx = np.asarray(c.sigma_xsec, dtype=float)
            if sx.ndim != 2 or sx.shape[0] != nl or len(paths) != nl:
                continue
            power = 2 if c.name == 'CIA' else 1
            tau_c = np.zeros((nl, sx.shape[1]))
            for l in range(nl):
                k = np.arange(nl - l)
                tau_c[l] = np.sum(sx[l + k] * (paths[l][k] * dens[l + k] ** power)[:, None], axis=0)
            out.applies('source-path-integral')
            with np.errstate(all='ignore'):
                want_t = np.exp(-tau_c)
            got_t = np.asarray(per[1][c.name][1], dtype=float)
            if got_t.shape != want_t.shape:
                out.fail('source-path-integral@%s,shape' % c.name, '%s vs %s' % (got_t.shape, want_t.shape))
                continue
            a_, b_ = neglog(got_t), tau_c
            ok = (got_t >= 1e-300) & np.isfinite(b_)
            if not close(a_[ok], b_[ok], rtol=1e-9, atol=1e-12) or np.any(got_t[~ok & np.isfinite(b_)] > 1e-299):
                out.fail('source-path-integral@%s' % c.name, 'transmittance of the source alone is not exp(-sum opacity x density%s x path): max rel %.2e'
                         % ('^2' if power == 2 else '', maxrel(a_[ok], b_[ok])))
    except CutError:
        pass
    # ---- order independence ---------------------------------------------------------------------
    Rp = w['radius'] * synth.RJUP
    Rs = w['star_R'] * RSUN
    z = np.asarray(m.altitudeProfile, dtype=float)
    dz = np.asarray(m.deltaz, dtype=float)
    slack = 2.0 * float(np.sum((Rp + z) * dz)) * math.exp(-10.0) / (Rs * Rs)
    try:
        if list(case['order2']) != names and len(cnames) >= 2 and case['probe'] != 'contrib-first':
            out.cls('reordered')
            W2 = cut(out, 'build-world', build, wz)
            m2 = cut(out, 'build-model', synth.make_model, W2, 'transmission',
                     make_contribs(W2, list(case['order2']), mie), **kw)
            _same_param_change(m2, changed)
            with np.errstate(all='ignore'):
                r2 = cut(out, 'model', m2.model)
            out.applies('order-independent')
            if not close(r2[1], depth, rtol=1e-9, atol=slack):
                out.fail('order-independent', 'orders %s / %s: max rel %.2e' % (names, case['order2'], maxrel(r2[1], depth)))
        # ---- a species at exactly zero abundance changes nothing -----------------------------------
        if case['zero'] and len(wz['gases']) > len(w['gases']) and case['probe'] != 'contrib-first':
            W3 = cut(out, 'build-world', build, w)
            m3 = cut(out, 'build-model', synth.make_model, W3, 'transmission', make_contribs(W3, names, mie), **kw)
            _same_param_change(m3, changed)
            with np.errstate(all='ignore'):
                r3 = cut(out, 'model', m3.model)
            out.applies('zero-abundance')
            if not close(r3[1], depth, rtol=1e-9, atol=slack * 1e-3) or \
               not close(np.asarray(r3[2]), trans, rtol=1e-9, atol=1e-9):
                out.fail('zero-abundance', 'adding a species at zero abundance changed the spectrum (max rel %.2e)'
                         % maxrel(r3[1], depth))
        # ---- history: the species that sat at exactly zero is raised on the SAME live model (a retrieval moving an abundance up
        # from nothing) and the model evaluated again: the same spectrum and transmittance as a model built with that abundance
        if case['zero'] and len(wz['gases']) > len(w['gases']) and case['probe'] not in ('contrib-first', 'param-change'):
            zmol = wz['gases'][-1]['mol']
            if zmol in m.fittingParameters:
                out.cls('zero-species-raised')
                cut(out, 'build-world', build, wz)          # the judged model's tables back in the caches
                m[zmol] = 1e-3
                with np.errstate(all='ignore'):
                    r5 = cut(out, 'model@zero-species-raised', m.model)
                d5, t5 = np.array(r5[1], dtype=float, copy=True), np.array(r5[2], dtype=float, copy=True)
                wr = copy.deepcopy(wz)
                wr['gases'][-1].update({'zero': False, 'logmix': -3.0})
                W5 = cut(out, 'build-world', build, wr)
                m5 = cut(out, 'build-model', synth.make_model, W5, 'transmission', make_contribs(W5, names, mie), **kw)
                _same_param_change(m5, changed)
                with np.errstate(all='ignore'):
                    r6 = cut(out, 'model', m5.model)
                out.applies('zero-species-raised')
                if not close(d5, r6[1], rtol=1e-9, atol=slack) or not close(t5, np.asarray(r6[2]), rtol=1e-9, atol=1e-9):
                    out.fail('zero-species-raised', '%s raised from 0 to 1e-3 on the live model: differs from a model built with that abundance (max rel %.2e)'
                             % (zmol, maxrel(d5, r6[1])))
    except CutError:
        pass
    inside = np.any((trans > 0.01) & (trans < 0.99))
    out.nontrivial = bool(len(cnames) >= 2 and multi and inside)
    return out


def _same_param_change(model, changed):
    if changed:
        for c in model.contribution_list:
            if c.name == 'SimpleClouds':
                c.cloudsPressure = c.cloudsPressure * 0.01


def _lin_T(Tg, tab, T):
    if T <= Tg[0]:
        return tab[0]
    if T >= Tg[-1]:
        return tab[-1]
    i = int(np.searchsorted(Tg, T, side='right') - 1)
    f = (T - Tg[i]) / (Tg[i + 1] - Tg[i])
    return tab[i] * (1 - f) + tab[i + 1] * f


def build(w, e_scale=1.0):
    # a third of the worlds run in correlated-k mode (tables repeated along three quadrature points): the product rule
    # and the independence of the insertion order are statements about optical depth, whatever the opacity method
    W = synth.build_world(w, ktables=True, kweights=[0.2, 0.5, 0.3]) if w.get('ktables') else synth.build_world(w)
    if w.get('hminus'):
        from taurex.data.profiles.chemistry import ConstantGas
        W.chemistry.addGas(ConstantGas('H', mix_ratio=10.0 ** w['hminus']['H']))
        W.chemistry.addGas(ConstantGas('e-', mix_ratio=e_scale * 10.0 ** w['hminus']['e']))
    if w.get('chem_form') == 'stored':
        W.chemistry.__class__ = synth.stored_array_chemistry()
    return W
