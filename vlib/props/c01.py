"""C01 — transmission spectrum equals the documented transit-depth integral."""
import copy
import math
import numpy as np
from hypothesis import strategies as st

from vlib.runner import Outcome, cut, CutError, close, maxrel
from vlib import synth, ref, strategies as S

ID = 'C01'
TITLE = 'transit-depth integral'
CASES = {'quick': 1000, 'thorough': 48000}
SHARDS = {'quick': 1, 'thorough': 16}
RULE = ('Generated: synthetic world (planet radius 0.05-3 RJ, log g 0.3-2.7, star, 2-40 layers, pressure '
        'range 1-12 decades, isothermal or piecewise-linear temperature, 1-3 absorbing molecules with '
        'in-memory tables of magnitude class zero / transparent / mixed / saturated, fill gases, optional '
        'inactive gas, optional CIA, Rayleigh and cloud deck) x path-length method (legacy / ray-traced) '
        'x optional table scaling s>1.  Non-trivial = at least two layers have a transmittance strictly '
        'between 0.01 and 0.99 at some wavenumber; distinct by case hash.'
        ' Each case also carries 0-3 live updates (temperature / planet mass / planet radius / an abundance changed on the built model) after which every clause is judged again.')
ASSUMPTIONS = [
    'path-length conventions: legacy method tangent Rp+dz0/2+z_l with shell tops Rp+dz0/2+z_k+dz_k/2; '
    'ray-traced method tangent Rp+z_l+dz_l/2 with shell tops at the layer boundaries',
    'the saturation cut-off is modelled exactly (contributions in model order, a layer stops receiving '
    'contributions once its running min over wavenumber exceeds 10); cases whose running minimum comes '
    'within 1e-6 of 10 are not judged on the integral',
    'molecular opacities are recomputed with the C04 reference interpolation from the generated tables; '
    'opacities of CIA / Rayleigh / clouds are taken as the contribution reports them (judged in C03/C19)',
    'chord tolerance 1e-10 + 2e-14*R/min(dz) relative (cancellation in r_k^2-r_t^2); depth and optical depth rtol 1e-9',
    'RJUP=71492 km, RSUN=695700 km, k_B=1.380649e-23 typed in',
]
RULE = RULE + ' ' + 'Worlds also come in integer-axis forms (wavenumber and/or temperature axes of the opacity objects held as integer arrays of the same values); after a live update that unbinds the atmosphere (top above 1000 planet radii) nothing is judged.'
REQUIRED = {'refused-add-before-use': 0.1, 'live-update:T': 0.02, 'live-update:planet_mass': 0.03, 'live-update:abundance': 0.03, 'method:new': 0.3, 'method:legacy': 0.3, 'regime:mixed': 0.15, 'regime:saturated-everywhere': 0.02,
            'regime:transparent': 0.05, 'has-extras': 0.3}

RSUN = 695700000.0


@st.composite
def _case(draw):
    new_path = draw(st.sampled_from([False, True]))
    scale = draw(st.sampled_from([None, None, 1.5, 7.0, 300.0]))
    nothing = draw(st.sampled_from([False] * 9 + [True]))
    if nothing:
        w = draw(S.world(mags=['zero'], extras=()))
    else:
        w = draw(S.world())
    updates = draw(st.lists(st.tuples(st.sampled_from(['abundance', 'temperature', 'planet_mass', 'planet_radius']),
                                      st.floats(0.6, 1.6).filter(lambda x: abs(x - 1) > 0.02)), min_size=0, max_size=3))
    # a refused operation on the built model before it is used: adding a contribution it already holds (the caller catches
    # the error and goes on) -- the model is then what it was
    return {'world': w, 'new_path': new_path, 'scale': scale, 'updates': updates,
            'refused_add': draw(S.pick([False, True, False]))}


def strategy(tier):
    return _case()


def zero_corner_ambiguous(W, model):
    """True if some layer sits, for some tabulated molecule, within a few ulp of the table's lowest pressure while being
    colder than its lowest temperature: there the documented zero corner makes the opacity discontinuous, and which
    side a layer pressure computed as sqrt(P_i P_i+1) falls on is a matter of the last bit (judged in C04, both
    sides accepted).  Such a case cannot be compared with a reference and is set aside (counted)."""
    T = np.asarray(model.temperatureProfile, dtype=float)
    P = np.asarray(model.pressureProfile, dtype=float)
    for mol, (Tg, Pg, tab, wn) in W.tables.items():
        lp0 = math.log10(Pg[0])
        for l in range(len(T)):
            if T[l] < Tg[0] and abs(math.log10(P[l]) - lp0) <= 8 * np.spacing(abs(lp0)) + 1e-300:
                return True
    return False


def absorption_sigma_ref(W, model):
    T = np.asarray(model.temperatureProfile)
    P = np.asarray(model.pressureProfile)
    nl = len(T)
    sig = np.zeros((nl, len(W.wn)))
    for mol, (Tg, Pg, tab, wn) in W.tables.items():
        if mol not in model.chemistry.activeGases:
            continue
        mix = np.asarray(model.chemistry.get_gas_mix_profile(mol))
        for l in range(nl):
            sig[l] += ref.interp_xsec_ref(tab, list(Tg), list(Pg), float(T[l]), float(P[l]), 'linear') * mix[l]
    return sig


def run_model(out, W, case, label):
    m = cut(out, label + '-build', synth.make_model, W, 'transmission', None, new_path_method=case['new_path'])
    if case.get('refused_add') and m.contribution_list:
        try:
            m.add_contribution(m.contribution_list[0])
        except Exception:
            out.cls('refused-add-before-use')
    with np.errstate(all='ignore'):
        res = cut(out, label + '-model', m.model)
    return m, res


def check(case):
    out = Outcome()
    w = case['world']
    method = 'new' if case['new_path'] else 'legacy'
    out.cls('method:' + method)
    try:
        W = cut(out, 'build-world', synth.build_world, w)
        m, res = run_model(out, W, case, 'run')
    except CutError:
        return out
    wn, depth, trans, _ = res
    depth = np.array(depth, dtype=float, copy=True)
    trans = np.array(trans, dtype=float, copy=True)
    # evaluating the same model object again must give the same spectrum
    # (a retrieval evaluates one model object thousands of times)
    out.applies('repeatable')
    try:
        with np.errstate(all='ignore'):
            again = cut(out, 'run-model', m.model)
        if not np.array_equal(np.asarray(again[1]), depth, equal_nan=True) or \
                not np.array_equal(np.asarray(again[2]), trans, equal_nan=True):
            out.fail('repeatable', 'second model() call differs (max rel %.2e)' % maxrel(again[1], depth))
    except CutError:
        return out
    def judge(m, depth, trans, Rp, sfx):
        nl = w['nlayers']
        if zero_corner_ambiguous(W, m):
            out.cls('ambiguous-zero-corner')
            return None
        Rs = w['star_R'] * RSUN
        z = np.asarray(m.altitudeProfile, dtype=float)
        dz = np.asarray(m.deltaz, dtype=float)
        zb = np.asarray(m.altitude_boundaries, dtype=float)
        names = [c.name for c in m.contribution_list]
        if len(names) > 1:
            out.cls('has-extras')
        out.cls('ncontrib:%d' % len(names))

        out.applies('shape')
        if depth.shape != (len(W.wn),) or trans.shape != (nl, len(W.wn)) or not np.array_equal(wn, W.wn):
            out.fail(('shape') + sfx, 'depth %s trans %s' % (depth.shape, trans.shape))
            return None
        if not (np.all(np.isfinite(z)) and np.all(np.isfinite(dz)) and np.all(dz > 0)):
            out.cls('degenerate-altitude')
            return None
        if zb[-1] > 1e3 * Rp:
            # a live update (hotter, or a larger radius at the same mass) can unbind the atmosphere: altitudes of 1e30 planet
            # radii, where shell radii differ by more than float64 resolves -- no geometry left to judge (same rule as C11)
            out.cls('unbound-atmosphere')
            return None

        # --- geometry -------------------------------------------------------------
        path = [np.asarray(p, dtype=float) for p in m.path_length]
        out.applies('geometry')
        gtol = 1e-10 + 2e-14 * (Rp + zb[-1]) / float(np.min(dz))
        if len(path) != nl or any(len(path[l]) != nl - l for l in range(nl)):
            out.fail(('geometry@%s,counts' % method) + sfx, 'segment counts %s' % [len(p) for p in path])
            return None
        pref = ref.path_lengths_new(Rp, z, dz, zb) if case['new_path'] else ref.path_lengths_legacy(Rp, z, dz)
        for l in range(nl):
            if not close(path[l], pref[l], rtol=gtol, atol=gtol * float(np.max(pref[l]))):
                out.fail(('geometry@%s,segments' % method) + sfx,
                         'layer %d got %s want %s' % (l, path[l][:3], np.array(pref[l][:3])))
                break
        if any(np.any(p <= 0) for p in path):
            out.fail(('geometry@%s,positive' % method) + sfx, 'non-positive chord segment')
        # convention-free: segments of a ray add up to the full chord to the top shell
        for l in range(nl):
            if case['new_path']:
                rt, rtop = Rp + z[l] + dz[l] / 2.0, Rp + zb[-1]
            else:
                rt, rtop = Rp + dz[0] / 2.0 + z[l], Rp + dz[0] / 2.0 + z[-1] + dz[-1] / 2.0
            full = 2.0 * math.sqrt(max(rtop * rtop - rt * rt, 0.0))
            if not close(float(np.sum(path[l])), full, rtol=gtol * 10):
                out.fail(('geometry@%s,chord-sum' % method) + sfx, 'layer %d sum %r full chord %r' % (l, float(np.sum(path[l])), full))
                break

        # --- density -----------------------------------------------------------------
        T = np.asarray(m.temperatureProfile, dtype=float)
        P = np.asarray(m.pressureProfile, dtype=float)
        dens = np.asarray(m.densityProfile, dtype=float)
        out.applies('density')
        if not close(dens, P / (ref.K_BOLTZ * T), rtol=1e-12):
            out.fail(('density') + sfx, 'n != P/kT (max rel %.2e)' % maxrel(dens, P / (ref.K_BOLTZ * T)))

        # --- opacities ------------------------------------------------------------------
        sigmas, powers = [], []
        for c in {id(c_): c_ for c_ in m.contribution_list}.values():      # each declared contribution once
            sx = np.asarray(c.sigma_xsec, dtype=float)
            if c.name == 'Absorption':
                sref = absorption_sigma_ref(W, m)
                out.applies('absorption-sigma')
                if sx.shape != sref.shape or not close(sx, sref, rtol=1e-9, atol=1e-13 * float(np.max(sref)) + 1e-300):
                    out.fail(('absorption-sigma') + sfx, 'weighted cross-section differs from table x mixing ratio (max rel %.2e)'
                             % (maxrel(sx, sref) if sx.shape == sref.shape else -1))
                sigmas.append(('sigma', sref))
                powers.append(1)
            elif c.name == 'CIA':
                sigmas.append(('sigma', sx))
                powers.append(2)
            elif c.name == 'SimpleClouds':
                sigmas.append(('layer', sx))
                powers.append(0)
            else:
                sigmas.append(('sigma', sx))
                powers.append(1)

        # --- the integral -----------------------------------------------------------------
        dref = P / (ref.K_BOLTZ * T)
        with np.errstate(all='ignore'):
            tau_ref, borderline = ref.slant_tau(path, sigmas, dref, powers)
            trans_ref = np.exp(-tau_ref)
        mid = np.sum(np.any((trans_ref > 0.01) & (trans_ref < 0.99), axis=1))
        if np.all(trans_ref > 0.99):
            out.cls('regime:transparent')
        elif np.all(trans_ref < 0.01):
            out.cls('regime:saturated-everywhere')
        else:
            out.cls('regime:mixed')
        out.nontrivial = bool(mid >= 2)
        if borderline:
            out.cls('cutoff-borderline')
        else:
            out.applies('transmittance')
            if not close(trans, trans_ref, rtol=1e-9, atol=1e-9):
                l = int(np.argmax(np.max(np.abs(trans - trans_ref), axis=1)))
                out.fail(('transmittance@%s' % method) + sfx, 'layer %d got %s want %s' % (l, trans[l][:3], trans_ref[l][:3]))
            out.applies('depth')
            dref_ = ref.transit_depth(Rp, Rs, z, dz, trans_ref)
            if not close(depth, dref_, rtol=1e-9):
                out.fail(('depth@%s' % method) + sfx, 'got %s want %s (max rel %.2e)' % (depth[:3], dref_[:3], maxrel(depth, dref_)))
        # --- consequences -------------------------------------------------------------------
        bare = (Rp / Rs) ** 2
        opaque = (Rp * Rp + 2.0 * float(np.sum((Rp + z) * dz))) / (Rs * Rs)
        out.applies('bounds')
        if np.any(depth < bare * (1 - 1e-12)):
            out.fail(('bounds@below-bare-planet') + sfx, 'min depth %r bare %r' % (float(depth.min()), bare))
        if np.any(depth > opaque * (1 + 1e-12)):
            out.fail(('bounds@above-opaque') + sfx, 'max depth %r opaque %r' % (float(depth.max()), opaque))
        if all(g['table'] is None or g['table']['mag'] == 'zero' for g in w['gases']) and names == ['Absorption']:
            out.cls('nothing-absorbs')
            out.applies('bare-planet')
            if not close(depth, bare * np.ones_like(depth), rtol=1e-14):
                out.fail(('bare-planet') + sfx, 'depth %s bare %r' % (depth[:3], bare))
        return z, dz

    Rp = w['radius'] * synth.RJUP
    Rs = w['star_R'] * RSUN
    st_ = judge(m, depth, trans, Rp, '')
    if st_ is None:
        return out
    z, dz = st_
    nontrivial = out.nontrivial
    Rp_live = Rp
    # --- live updates: a retrieval changes parameters of the SAME built model between evaluations; every
    # evaluation must again be the integral for the atmosphere as it now is (no geometry / opacity / density kept)
    for kind, fac in case.get('updates', []):
        cands = {'temperature': ['T', 'T_surface', 'T_top'], 'abundance': list(m.chemistry.activeGases)}.get(kind, [kind])
        name = next((c_ for c_ in cands if c_ in m.fittingParameters), None)
        if name is None:
            continue
        old = m.fittingParameters[name][2]()
        if not isinstance(old, (float, int, np.floating)) or not math.isfinite(old) or old <= 0:
            continue
        if name not in ('T', 'planet_mass', 'planet_radius', 'T_surface', 'T_top') and fac > 1.0:
            fac = 1.0 / fac                     # abundances only go down: the mixture stays valid
        out.cls('live-update:' + ('abundance' if name not in ('T', 'planet_mass', 'planet_radius', 'T_surface', 'T_top') else name))
        out.applies('live-update')
        try:
            m[name] = old * fac
            with np.errstate(all='ignore'):
                r2 = cut(out, 'run-model', m.model)
        except CutError:
            return out
        if name == 'planet_radius':
            Rp_live = Rp_live * fac
        d2 = np.array(r2[1], dtype=float, copy=True)
        t2 = np.array(r2[2], dtype=float, copy=True)
        if judge(m, d2, t2, Rp_live, ',live-update') is None:
            break
    out.nontrivial = nontrivial
    # scaling every cross-section up never lowers the depth (beyond the cut-off slack)
    if case['scale'] is not None and any(g['table'] is not None and g['table']['mag'] != 'zero' for g in w['gases']):
        out.cls('scaled')
        w2 = copy.deepcopy(w)
        s = case['scale']
        for g in w2['gases']:
            if g['table'] is not None and g['table']['mag'] != 'zero':
                g['table']['base'] += math.log10(s)
        if w2.get('cia') is not None:
            w2['cia']['base'] += math.log10(s)
        try:
            W2 = cut(out, 'build-world', synth.build_world, w2)
            m2, res2 = run_model(out, W2, case, 'run')
        except CutError:
            return out
        out.applies('monotone-in-opacity')
        slack = 2.0 * float(np.sum((Rp + z) * dz)) * math.exp(-10.0) / (Rs * Rs)
        d2 = np.asarray(res2[1], dtype=float)
        if np.any(d2 < depth - slack - 1e-12 * depth):
            k = int(np.argmin(d2 - depth))
            out.fail('monotone-in-opacity', 'scale %g: depth %r -> %r (slack %r)' % (s, depth[k], d2[k], slack))
    return out
