"""C16 — output files hold what was computed and reload to the same model."""
import math
import os
import shutil
import tempfile
import numpy as np
from hypothesis import strategies as st

from vlib.runner import Outcome, cut, CutError, close, maxrel
from vlib import synth, strategies as S
from vlib.props.c05 import overlap_mean, midpoint_widths

ID = 'C16'
TITLE = 'output files'
CASES = {'quick': 300, 'thorough': 24000}
SHARDS = {'quick': 1, 'thorough': 16}
RULE = ('Generated: (a) nested dictionaries (depth <= 4, identifier keys; values float / int / bool / np.float64 / '
        'np.int64 / 0-3-D float and int arrays / ASCII strings / lists and tuples of numbers, of ASCII strings '
        '(<= 64 bytes), of dicts, and ragged numeric lists) stored with HDF5Output.store_dictionary and read '
        'back with h5py; (b) forward-model results of synthetic worlds through Native / Simple / Flux binners '
        'at the three output sizes; (c) models of drawn component combinations (temperature, gas profile and '
        'contribution types, parameter values) written with model.write and rebuilt with '
        'taurex_hdf5_to_model.  Non-trivial = (a) >=2 levels with an array and a string list, (b) binned '
        'output with optical depths, (c) >=2 non-default component types; distinct by case hash.'
        ' In the spectrum part the same binner then describes a second result on another native grid of the same length.')
ASSUMPTIONS = [
    'string lists are stored in a fixed S64 column: entries longer than 64 bytes or non-ASCII are outside the file format and not generated',
    'lists mixing strings and numbers are not generated (the writer routes any list containing a string to the string column)',
    'binned wavelength width = 10000 * wavenumber width / centre^2 (first-order conversion at the bin centre, as used for observations)',
    'the reload clause compares constructor-level parameters that the writers store; opacities stay registered in the caches between write and reload',
]
RULE = RULE + ' ' + 'Also: every stored dictionary holds a 0-d array and a non-contiguous view; native points exactly on bin edges; native bin widths and binned optical depths of the stored spectra. Round 9: every stored dictionary also holds a list or tuple of python ints (one above 2**53), read back exactly and with an integer dtype.'
REQUIRED = {'whole-number-list': 0.08, 'native-grid-descending': 0.08, 'dict:array-0d': 0.05, 'dict:array-strided': 0.03, 'native-points-on-bin-edges': 0.03, 'part:retrieval': 0.04, 'part:dict': 0.08, 'part:spectrum': 0.08, 'part:model': 0.08}
# coverage-guided extra (thorough tier): pure-Python taurex modules on this property's path, instrumented by atheris
FUZZ = {'include': ['taurex.output', 'taurex.util.output', 'taurex.util.hdf5', 'taurex.util.util', 'taurex.binning'], 'runs': 8000, 'workers': 4}

KEY = st.text(alphabet='abcdefghijklmnopqrstuvwxyzABCDEFGHIJKLMNOPQRSTUVWXYZ_', min_size=1, max_size=8)
ASCII = st.text(alphabet=st.characters(min_codepoint=32, max_codepoint=126), min_size=0, max_size=40)


def _leaf():
    num = st.floats(-1e300, 1e300)
    return st.one_of(
        num.map(lambda v: ['float', v]), S.ints(-2 ** 62, 2 ** 62).map(lambda v: ['int', v]),
        st.booleans().map(lambda v: ['bool', v]), num.map(lambda v: ['npfloat', v]),
        S.ints(-2 ** 62, 2 ** 62).map(lambda v: ['npint', v]),
        st.tuples(st.sampled_from(['f', 'i', 's', 'f']), st.one_of(st.just([]), st.lists(S.ints(0, 3), max_size=3)),
                  st.lists(st.floats(-1e6, 1e6), min_size=27, max_size=27)).map(lambda t: ['array', t[0], t[1], t[2]]),
        ASCII.map(lambda v: ['str', v]),
        st.lists(num, max_size=5).map(lambda v: ['numlist', v]),
        st.lists(num, max_size=5).map(lambda v: ['numtuple', v]),
        st.lists(ASCII, min_size=1, max_size=4).map(lambda v: ['strlist', v]),
        st.lists(st.lists(num, min_size=1, max_size=3), min_size=2, max_size=3).map(lambda v: ['ragged', v]),
    )


def _tree(depth):
    if depth == 0:
        return st.dictionaries(KEY, _leaf(), min_size=1, max_size=4).map(lambda d: ['dict', d])
    sub = _tree(depth - 1)
    return st.dictionaries(KEY, st.one_of(_leaf(), _leaf(), sub, st.lists(sub, min_size=1, max_size=2).map(lambda v: ['dictlist', v])),
                           min_size=1, max_size=4).map(lambda d: ['dict', d])


STRATA = {'dict': 2, 'model': 2, 'spectrum': 1, 'retrieval': 1}


@st.composite
def _case(draw, part=None):
    part = part or draw(S.pick(['dict', 'model', 'spectrum', 'retrieval', 'dict', 'model']))
    c = {'part': part}
    if part == 'retrieval':
        from vlib.props import c09
        r = draw(c09._case())
        r['sampler'] = 'nestle'
        r['refit'] = False
        c['ret'] = r
        return c
    if part == 'dict':
        c['tree'] = draw(_tree(draw(S.ints(0, 3))))
        return c
    c['family'] = draw(st.sampled_from(['transmission', 'emission']))
    c['ngauss'] = draw(S.ints(1, 4))
    if part == 'spectrum':
        c['binner'] = draw(st.sampled_from(['flux', 'simple', 'native', 'flux-widths']))
        c['size'] = draw(st.sampled_from(['heavy', 'light', 'lighter']))
        c['nb'] = draw(S.ints(2, 6))
        c['wf'] = draw(st.lists(st.floats(0.3, 1.5), min_size=6, max_size=6))
        c['world'] = draw(S.world(layers=(2, 8), nwn=(20, 30), max_active=2, extras=('CIA', 'Rayleigh'), mags=['mixed']))
        return c
    c['temp'] = draw(st.sampled_from(['npoint', 'isothermal', 'guillot']))
    c['tvals'] = draw(st.lists(st.floats(300.0, 2500.0), min_size=4, max_size=4))
    # twopoint is an open known finding (class not discoverable on reload): kept rare
    c['gas2'] = draw(st.sampled_from(['twolayer', 'constant'] * 4 + ['twopoint']))
    c['npoints'] = draw(st.sampled_from([2, 1, 3, 0]))
    c['contribs'] = draw(st.lists(st.sampled_from(['CIA', 'Rayleigh', 'SimpleClouds', 'FlatMie', 'LeeMie']), max_size=4, unique=True))
    c['vals'] = draw(st.lists(st.floats(0.1, 0.9), min_size=8, max_size=8))
    c['new_path'] = draw(st.booleans())
    c['world'] = draw(S.world(layers=(3, 12), nwn=(4, 10), max_active=2, extras=('CIA',), temps=('iso',), mags=['mixed']))
    c['world']['extras'] = ['CIA'] if 'CIA' in c['contribs'] else []
    return c


def strategy(tier, part=None):
    return _case(part)


# ---------------------------------------------------------------------------------------------------
def realise(node):
    """python object to store, and the tree we expect to read back"""
    k = node[0]
    if k == 'dict':
        return {kk: realise(v) for kk, v in node[1].items()}
    if k == 'dictlist':
        return [realise(v) for v in node[1]]
    if k == 'float':
        return float(node[1])
    if k == 'int':
        return int(node[1])
    if k == 'bool':
        return bool(node[1])
    if k == 'npfloat':
        return np.float64(node[1])
    if k == 'npint':
        return np.int64(node[1])
    if k == 'array':
        _, dt, shape, vals = node
        n = int(np.prod(shape)) if shape else 1
        a = np.array(vals[:n] if n else [], dtype=float).reshape(shape)
        if dt == 's':
            # the same numbers as a non-contiguous view (every other column of a wider array, or a transpose)
            if a.ndim >= 1 and a.shape[-1] >= 1:
                wide = np.repeat(a, 2, axis=-1)
                a = wide[..., ::2]
            return a
        return a.astype(np.int64) if dt == 'i' else a
    if k == 'str':
        return str(node[1])
    if k in ('numlist', 'numtuple'):
        if node[1] and all(isinstance(v, int) for v in node[1]):
            return list(node[1]) if k == 'numlist' else tuple(node[1])
        vals = [float(v) for v in node[1]]
        if vals and int(math.fmod(abs(vals[0]), 7.0) + len(vals)) % 3 == 0:
            # a list / tuple of whole numbers (python ints up to 2**62, beyond what a float holds exactly)
            vals = [int(math.fmod(v, 2.0 ** 62)) for v in vals]
        return vals if k == 'numlist' else tuple(vals)
    if k == 'strlist':
        return [str(v) for v in node[1]]
    if k == 'ragged':
        return [[float(x) for x in v] for v in node[1]]
    raise ValueError(k)


def compare(out, node, h5, path):
    import h5py
    k = node[0]
    if k == 'dict':
        if not isinstance(h5, (h5py.Group, h5py.File)):
            out.fail('dict-roundtrip@group', '%s is not a group' % path)
            return
        want_keys = set()
        for kk, v in node[1].items():
            if v[0] == 'dictlist':
                for i, sub in enumerate(v[1]):
                    want_keys.add('%s%d' % (kk, i))
                    if '%s%d' % (kk, i) not in h5:
                        out.fail('dict-roundtrip@missing,dictlist', '%s/%s%d missing' % (path, kk, i))
                    else:
                        compare(out, sub, h5['%s%d' % (kk, i)], '%s/%s%d' % (path, kk, i))
                continue
            if v[0] == 'ragged' and len({len(x) for x in v[1]}) > 1:
                for i, sub in enumerate(v[1]):
                    name = '%s%d' % (kk, i)
                    if name not in h5 or not np.array_equal(np.asarray(h5[name][()], dtype=float), np.array(sub, dtype=float)):
                        out.fail('dict-roundtrip@ragged', '%s/%s does not hold row %d' % (path, name, i))
                continue
            if kk not in h5:
                out.fail('dict-roundtrip@missing,%s' % v[0], '%s/%s missing (have %s)' % (path, kk, list(h5.keys())))
                continue
            compare(out, v, h5[kk], '%s/%s' % (path, kk))
        return
    obj = realise(node)
    got = h5[()]
    if k in ('float', 'int', 'bool', 'npfloat', 'npint'):
        if np.shape(got) != () or not (got == obj or (isinstance(obj, float) and obj != obj)):
            out.fail('dict-roundtrip@scalar,%s' % k, '%s: stored %r read %r' % (path, obj, got))
        return
    if k == 'array':
        got = np.asarray(got)
        if got.shape != obj.shape or got.dtype.kind != obj.dtype.kind or not np.array_equal(got, obj):
            out.fail('dict-roundtrip@array,%s' % ('int' if node[1] == 'i' else 'float'),
                     '%s: shape %s/%s dtype %s/%s' % (path, got.shape, obj.shape, got.dtype, obj.dtype))
        return
    if k == 'str':
        s = got.decode() if isinstance(got, bytes) else got
        if s != obj:
            out.fail('dict-roundtrip@string', '%s: stored %r read %r' % (path, obj, s))
        return
    if k in ('numlist', 'numtuple') and len(obj) > 0 and all(isinstance(x, int) for x in obj):
        out.cls('whole-number-list')
        g = np.asarray(got)
        if g.dtype.kind not in 'iu' or [int(x) for x in g.ravel().tolist()] != list(obj):
            out.fail('dict-roundtrip@%s,whole-numbers' % k, '%s: stored %r read %r (dtype %s)' % (path, obj, got, g.dtype))
        return
    if k in ('numlist', 'numtuple', 'ragged'):
        want = np.array(obj, dtype=float)
        if not np.array_equal(np.asarray(got, dtype=float), want):
            out.fail('dict-roundtrip@%s' % k, '%s: stored %r read %r' % (path, obj, got))
        return
    if k == 'strlist':
        arr = np.asarray(got)
        rd = [x.decode() if isinstance(x, bytes) else str(x) for x in arr.ravel()]
        if rd != obj:
            out.fail('dict-roundtrip@strlist', '%s: stored %r read %r' % (path, obj, rd))


def check_dict(out, c, tmp):
    import h5py
    from taurex.output.hdf5 import HDF5Output
    tree = c['tree']
    # every stored dictionary also holds a 0-d array and a non-contiguous view (their share among drawn leaves is a few
    # per cent at best): values taken from the case so that they vary
    import copy
    tree = copy.deepcopy(tree)
    seedv = [float(len(k_)) + 0.25 * i for i, k_ in enumerate(sorted(tree[1]))] + [1.5, -2.25, 3.0]
    vals27 = [seedv[i % len(seedv)] * (1 + i) for i in range(27)]
    tree[1].setdefault('zeroDimArr', ['array', 'f' if len(tree[1]) % 2 else 'i', [], vals27])
    tree[1].setdefault('stridedArr', ['array', 's', [2, 3], vals27])
    # and a list or tuple of whole numbers, one of them beyond what a float holds exactly
    tree[1].setdefault('wholeNumbers', ['numtuple' if len(tree[1]) % 2 else 'numlist', [2 ** 53 + 1 + int(abs(v)) for v in seedv[:3]] + [-7, 0, int(vals27[5])]])
    obj = realise(tree)
    for kd in ('array-0d', 'array-strided'):
        if kd in collect_kinds(tree):
            out.cls('dict:' + kd)
    fn = os.path.join(tmp, 'd.h5')
    with HDF5Output(fn) as o:
        cut(out, 'store_dictionary@%s' % kinds_tag(tree), o.store_dictionary, obj, 'Results')
    out.applies('dict-roundtrip')
    with h5py.File(fn, 'r') as f:
        compare(out, tree, f['Results'], 'Results')
    kinds = collect_kinds(tree)
    depth = tree_depth(tree)
    return bool(depth >= 2 and 'array' in kinds and 'strlist' in kinds)


def collect_kinds(node, acc=None):
    acc = acc if acc is not None else set()
    acc.add(node[0])
    if node[0] == 'dict':
        for v in node[1].values():
            collect_kinds(v, acc)
    elif node[0] == 'dictlist':
        for v in node[1]:
            collect_kinds(v, acc)
    elif node[0] == 'ragged' and len({len(x) for x in node[1]}) > 1:
        acc.add('ragged-uneven')
    elif node[0] == 'array' and len(node[2]) == 0:
        acc.add('array-0d')
    elif node[0] == 'array' and node[1] == 's':
        acc.add('array-strided')
    return acc


def kinds_tag(tree):
    k = collect_kinds(tree)
    return 'ragged' if 'ragged-uneven' in k else ('dictlist' if 'dictlist' in k else 'plain')


def tree_depth(node):
    if node[0] == 'dict':
        return 1 + max([tree_depth(v) for v in node[1].values()] + [0])
    if node[0] == 'dictlist':
        return max(tree_depth(v) for v in node[1])
    return 0


# ---------------------------------------------------------------------------------------------------
def check_spectrum(out, c, tmp):
    from taurex.binning import FluxBinner, SimpleBinner, NativeBinner
    from taurex import OutputSize
    w = c['world']
    W = cut(out, 'build-world', synth.build_world, w)
    kw = {'ngauss': c['ngauss']} if c['family'] == 'emission' else {}
    m = cut(out, 'build-model', synth.make_model, W, c['family'], None, **kw)
    with np.errstate(all='ignore'):
        res = cut(out, 'model', m.model)
    native = np.asarray(res[0], dtype=float)
    spec = np.asarray(res[1], dtype=float)
    nb = c['nb']
    span = native[-1] - native[0]
    width = span / (nb + 1)
    centres = native[0] + width * (0.8 + np.arange(nb))
    widths = width * np.array(c['wf'][:nb])
    kind = c['binner']
    if kind == 'flux':
        b = FluxBinner(centres.copy())
        bw = midpoint_widths(centres)[1]
    elif kind == 'flux-widths':
        # the bin table is handed over in wavelength order (wavenumbers descending): what is stored must still describe
        # each bin with its own width
        b = FluxBinner(centres[::-1].copy(), widths[::-1].copy())
        bw = widths
    elif kind == 'simple':
        b = SimpleBinner(centres.copy())
        bw = midpoint_widths(centres)[1]
    else:
        b = NativeBinner()
    size = {'heavy': OutputSize.heavy, 'light': OutputSize.light, 'lighter': OutputSize.lighter}[c['size']]
    want_tau_native = c['size'] == 'heavy'
    want_tau_binned = c['size'] in ('heavy', 'light') and kind != 'native'

    def judge(res_, sfx, b=b, centres=centres, bw=(bw if kind != 'native' else None), nb=nb):
        native = np.asarray(res_[0], dtype=float)
        spec = np.asarray(res_[1], dtype=float)
        with np.errstate(all='ignore'):
            d = cut(out, 'generate_spectrum_output@' + kind + sfx, b.generate_spectrum_output, res_, size)
        out.applies('self-describing')
        missing = [k_ for k_ in ('native_wngrid', 'native_spectrum', 'native_wlgrid') if k_ not in d]
        if missing:
            out.fail('self-describing@missing,' + kind + sfx, 'the spectrum output lacks %s' % missing)
            return None
        if not np.array_equal(np.asarray(d['native_wngrid']), native) or not np.array_equal(np.asarray(d['native_spectrum']), spec):
            out.fail('self-describing@native,' + kind + sfx, 'native grid / spectrum are not the model result')
        if not close(d['native_wlgrid'], 10000.0 / native, rtol=1e-15):
            out.fail('self-describing@native_wlgrid,' + kind + sfx, 'native wavelength grid is not 10000/wavenumber')
        # the native bin widths stored next to the native grids are those of the same grids (edges at the mid-points)
        if len(native) >= 2 and 'native_wnwidth' in d:
            out.applies('native-widths')
            if not close(d['native_wnwidth'], midpoint_widths(native)[1], rtol=1e-12):
                out.fail('native-widths@wavenumber,' + kind + sfx, 'native_wnwidth is not the width of the native wavenumber bins')
            if 'native_wlwidth' in d and not close(d['native_wlwidth'], midpoint_widths(10000.0 / native)[1], rtol=1e-12):
                out.fail('native-widths@wavelength,' + kind + sfx, 'native_wlwidth is not the width of the native wavelength bins')
        want_tau_native = c['size'] == 'heavy'
        want_tau_binned = c['size'] in ('heavy', 'light') and kind != 'native'
        out.applies('optical-depth-presence')
        if ('native_tau' in d) != want_tau_native:
            out.fail('optical-depth-presence@native,%s' % c['size'] + sfx, 'native_tau present: %s' % ('native_tau' in d))
        if kind != 'native' and ('binned_tau' in d) != want_tau_binned:
            out.fail('optical-depth-presence@binned,%s' % c['size'] + sfx, 'binned_tau present: %s' % ('binned_tau' in d))
        if kind == 'native':
            return
        out.applies('binned-grids')
        if not np.array_equal(np.asarray(d['binned_wngrid']), centres) or not close(d['binned_wlgrid'], 10000.0 / centres, rtol=1e-15):
            out.fail('binned-grids@' + kind + sfx, 'binned grid is not the target grid / wavelength grid not 10000/wavenumber')
        if not close(d['binned_wnwidth'], bw, rtol=1e-12):
            out.fail('binned-grids@wnwidth,' + kind + sfx, 'binned wavenumber widths are not those of the binner')
        out.applies('binned-wlwidth')
        if not close(d['binned_wlwidth'], 10000.0 * np.asarray(bw) / centres ** 2, rtol=1e-12):
            out.fail('binned-wlwidth@' + kind + sfx, 'binned wavelength width %s is not the wavenumber width converted at the bin centre %s'
                     % (np.asarray(d['binned_wlwidth'])[:2], (10000.0 * np.asarray(bw) / centres ** 2)[:2]))
        out.applies('binned-spectrum')
        with np.errstate(all='ignore'):
            direct = np.asarray(b.bindown(native, spec)[1], dtype=float)
        stored = np.asarray(d['binned_spectrum'], dtype=float)
        both_nan = np.isnan(direct) & np.isnan(stored) if stored.shape == direct.shape else False      # a bin holding no native point
        if stored.shape != direct.shape or not close(np.where(both_nan, 0.0, stored), np.where(both_nan, 0.0, direct), rtol=1e-12, atol=1e-300):
            out.fail('binned-spectrum@binner,' + kind + sfx, 'stored binned spectrum is not the binner applied to the stored native spectrum')
        if 'binned_tau' in d:
            # the binned optical depths are the same binner applied to the optical-depth rows of the same result
            out.applies('binned-tau')
            tau_rows = np.asarray(res_[2], dtype=float)
            with np.errstate(all='ignore'):
                direct_t = np.asarray(b.bindown(native, tau_rows)[1], dtype=float)
            stored_t = np.asarray(d['binned_tau'], dtype=float)
            nan_t = np.isnan(direct_t) & np.isnan(stored_t) if stored_t.shape == direct_t.shape else False
            if stored_t.shape != direct_t.shape or not close(np.where(nan_t, 0.0, stored_t), np.where(nan_t, 0.0, direct_t), rtol=1e-12, atol=1e-300):
                out.fail('binned-tau@' + kind + sfx, 'stored binned optical depths %s are not the binner applied to the optical depths %s'
                         % (stored_t.shape, direct_t.shape))
            if 'native_tau' in d and not np.array_equal(np.asarray(d['native_tau']), np.asarray(res_[2])):
                out.fail('binned-tau@native,' + kind + sfx, 'native_tau is not the optical-depth array of the result')
        if kind.startswith('flux'):
            e, nw = midpoint_widths(native)
            for i in range(nb):
                v, _, tot, _, _ = overlap_mean(native - nw / 2, native + nw / 2, spec, centres[i] - bw[i] / 2, centres[i] + bw[i] / 2)
                if tot > 0 and not close(np.asarray(d['binned_spectrum'])[i], v, rtol=1e-9, atol=1e-300):
                    out.fail('binned-spectrum@reference,' + kind + sfx, 'bin %d: %r vs overlap mean %r' % (i, np.asarray(d['binned_spectrum'])[i], v))
                    break
        return d

    if want_tau_binned and c['nb'] % 2 == 0:
        # a request that is refused first (a result without optical depths at a size that stores them; the caller catches the
        # error), then the proper request on the same binner
        try:
            with np.errstate(all='ignore'):
                b.generate_spectrum_output((res[0], res[1], None, None), size)
        except Exception:
            out.cls('refused-output-request-first')
    d_first = judge(res, '')
    if kind != 'native' and d_first is not None:
        # the same result handed over in descending wavenumber order (a model on a wavelength-ordered grid): the binned
        # spectrum and the binned optical depths are those of the ascending listing
        resd = (np.asarray(res[0])[::-1].copy(), np.asarray(res[1])[::-1].copy(), np.asarray(res[2])[:, ::-1].copy(), res[3])
        out.cls('native-grid-descending')
        with np.errstate(all='ignore'):
            dd = cut(out, 'generate_spectrum_output@' + kind + ',descending', b.generate_spectrum_output, resd, size)
        out.applies('descending-native-grid')
        for key in ('binned_spectrum', 'binned_tau'):
            if key in d_first and key in dd:
                a_, b_ = np.asarray(d_first[key], dtype=float), np.asarray(dd[key], dtype=float)
                nn = np.isnan(a_) & np.isnan(b_) if a_.shape == b_.shape else False
                if a_.shape != b_.shape or not close(np.where(nn, 0.0, b_), np.where(nn, 0.0, a_), rtol=1e-9, atol=1e-300):
                    out.fail('descending-native-grid@%s,%s' % (key, kind), '%s differs between the ascending and the descending listing of the same result' % key)
    # the same binner describes a second result on another native grid of the same length (one binner serves
    # every spectrum written during a run): the stored output must describe THAT result
    out.applies('self-describing-reuse')
    k = 1.0 + 0.013 * (1 + c['nb'])
    res2 = (native * k + 0.37 * (native[-1] - native[0]) / len(native), spec[::-1].copy(),
            np.asarray(res[2])[:, ::-1].copy(), res[3])
    judge(res2, ',reuse')
    # native points lying exactly on bin edges (a native grid on whole wavenumbers, bins between every other point):
    # whichever bin such a point is counted in, the stored spectrum is still the binner applied to the stored native one
    n3 = len(native)
    if kind in ('simple', 'flux') and n3 >= 5:
        out.cls('native-points-on-bin-edges')
        nat3 = 1000.0 + np.arange(n3)
        nb3 = (n3 - 1) // 2
        cen3 = nat3[0] + 1.0 + 2.0 * np.arange(nb3)
        if nb3 >= 2:
            b3 = SimpleBinner(cen3.copy()) if kind == 'simple' else FluxBinner(cen3.copy())
            sp3 = spec * (1.0 + 0.37 * np.cos(1.3 * np.arange(n3)))
            res3 = (nat3, sp3, np.asarray(res[2]).copy(), res[3])
            judge(res3, ',edge-ties', b=b3, centres=cen3, bw=midpoint_widths(cen3)[1], nb=nb3)
    return bool(want_tau_binned)


# ---------------------------------------------------------------------------------------------------
def check_model(out, c, tmp):
    from taurex.output.hdf5 import HDF5Output
    from taurex.util.hdf5 import taurex_hdf5_to_model
    from taurex.data.profiles.temperature import NPoint, Guillot2010
    from taurex.data.profiles.chemistry import TwoLayerGas
    from taurex.data.profiles.chemistry.gas.twopointgas import TwoPointGas
    from taurex.contributions import FlatMieContribution, LeeMieContribution
    w = c['world']
    W = cut(out, 'build-world', synth.build_world, w)
    v = c['vals']
    tv = c['tvals']
    nondefault = 0
    if c['temp'] == 'npoint':
        lo, hi = math.log10(W.pmin), math.log10(W.pmax)
        # 0-3 interior nodes, pressures strictly decreasing from the surface
        nint = c.get('npoints', 1)
        fr = sorted([0.15 + 0.7 * x for x in (v[0], v[2], v[4])[:nint]], reverse=True)
        fr = [f_ - 0.01 * i_ for i_, f_ in enumerate(fr)]
        W.temperature = NPoint(T_surface=tv[0], T_top=tv[1], temperature_points=[tv[2], tv[3], 0.5 * (tv[0] + tv[3])][:nint],
                               P_surface=W.pmax, P_top=W.pmin,
                               pressure_points=[10.0 ** (lo + f_ * (hi - lo)) for f_ in fr], smoothing_window=int(5 + 20 * v[1]))
        out.cls('npoint-interior:%d' % nint)
        nondefault += 1
    elif c['temp'] == 'guillot':
        W.temperature = Guillot2010(T_irr=tv[0], kappa_irr=0.01 * (0.5 + v[0]), kappa_v1=0.005 * (0.5 + v[1]),
                                    kappa_v2=0.004 * (0.5 + v[2]), alpha=v[3], T_int=100.0 * (0.5 + v[4]))
        nondefault += 1
    # a second gas of a drawn profile type
    extra = 'SO2'
    if c['gas2'] == 'twolayer':
        lo, hi = math.log10(W.pmin), math.log10(W.pmax)
        W.chemistry.addGas(TwoLayerGas(extra, mix_ratio_surface=1e-4 * (0.5 + v[5]), mix_ratio_top=1e-7 * (0.5 + v[6]),
                                       mix_ratio_P=10.0 ** (lo + v[7] * (hi - lo)), mix_ratio_smoothing=20))
        nondefault += 1
    elif c['gas2'] == 'twopoint':
        W.chemistry.addGas(TwoPointGas(extra, mix_ratio_surface=1e-4 * (0.5 + v[5]), mix_ratio_top=1e-7 * (0.5 + v[6])))
        nondefault += 1
    contribs = synth.make_contributions(W, ['Absorption'] + [x for x in c['contribs'] if x in ('CIA', 'Rayleigh', 'SimpleClouds')])
    if 'FlatMie' in c['contribs']:
        contribs.append(FlatMieContribution(flat_mix_ratio=1e-26 * (0.5 + v[0]), flat_bottomP=W.pmax * 0.5, flat_topP=W.pmin * 5))
        nondefault += 1
    elif 'LeeMie' in c['contribs']:
        contribs.append(LeeMieContribution(lee_mie_radius=0.05 + v[1], lee_mie_q=20 + 40 * v[2], lee_mie_mix_ratio=1e-12 * (0.5 + v[3]),
                                           lee_mie_bottomP=W.pmax * 0.5, lee_mie_topP=W.pmin * 5))
        nondefault += 1
    nondefault += len([x for x in c['contribs'] if x in ('CIA', 'Rayleigh', 'SimpleClouds')])
    kw = {'ngauss': c['ngauss']} if c['family'] == 'emission' else {}
    if 'SimpleClouds' in c['contribs'] and c['family'] == 'emission':
        contribs = [x for x in contribs if x.name != 'SimpleClouds']
    m = cut(out, 'build-model', synth.make_model, W, c['family'], contribs, **kw)
    with np.errstate(all='ignore'):
        res = cut(out, 'model', m.model)
    spec = np.array(res[1], dtype=float, copy=True)
    before = {k: _num(t[2]()) for k, t in m.fittingParameters.items()}
    fn = os.path.join(tmp, 'model.h5')
    with HDF5Output(fn) as o:
        with np.errstate(all='ignore'):
            cut(out, 'model.write@%s,%s' % (c['temp'], c['gas2']), m.write, o)
    with np.errstate(all='ignore'):
        m2 = cut(out, 'taurex_hdf5_to_model@%s,%s' % (c['temp'], c['gas2']), taurex_hdf5_to_model, fn)
        cut(out, 'reloaded.build', m2.build)
        res2 = cut(out, 'reloaded.model', m2.model)
    out.applies('reload-types')
    pairs = [('model', m, m2), ('temperature', m.temperature, m2.temperature), ('pressure', m.pressure, m2.pressure),
             ('chemistry', m.chemistry, m2.chemistry), ('planet', m.planet, m2.planet), ('star', m.star, m2.star)]
    for name, a, b in pairs:
        if type(a) is not type(b):
            out.fail('reload-types@' + name, '%s became %s' % (type(a).__name__, type(b).__name__))
    ca = sorted(type(x).__name__ for x in m.contribution_list)
    cb = sorted(type(x).__name__ for x in m2.contribution_list)
    if ca != cb:
        out.fail('reload-types@contributions', '%s became %s' % (ca, cb))
    ga = sorted((g.molecule, type(g).__name__) for g in m.chemistry._gases)
    gb = sorted((g.molecule, type(g).__name__) for g in m2.chemistry._gases)
    if ga != gb:
        out.fail('reload-types@gases', '%s became %s' % (ga, gb))
    out.applies('reload-parameters')
    after = {k: _num(t[2]()) for k, t in m2.fittingParameters.items()}
    if set(after) != set(before):
        out.fail('reload-parameters@names', 'parameters %s became %s' % (sorted(before), sorted(after)))
    else:
        bad = [k for k in before if not (close(after[k], before[k], rtol=1e-12) or (before[k] != before[k] and after[k] != after[k]))]
        if bad:
            out.fail('reload-parameters@values:%s' % bad[0], '%s: %r became %r' % (bad[0], before[bad[0]], after[bad[0]]))
    out.applies('reload-spectrum')
    # the stored parameters pass through unit conversions (an ulp); an ulp can flip the saturation cut-off decision
    # of a layer sitting exactly at tau = 10, which is licensed to change the result by e^-10 of that layer's term
    if c['family'] == 'transmission':
        z_, dz_ = np.asarray(m.altitudeProfile, dtype=float), np.asarray(m.deltaz, dtype=float)
        Rp_, Rs_ = float(m.planet.fullRadius), float(m.star.radius)
        lic = 2.0 * float(np.sum((Rp_ + z_) * dz_)) * math.exp(-10.0) / (Rs_ * Rs_)
    else:
        lic = math.exp(-10.0) * float(np.max(np.abs(spec)))
    if not np.all(np.isfinite(spec)) or not math.isfinite(lic):
        # the drawn temperatures unbind this (small, cold-built) planet's atmosphere: altitudes overflow and the spectrum
        # is NaN before and after the reload -- nothing numeric to compare
        out.cls('non-finite-spectrum')
        if not np.array_equal(np.isfinite(np.asarray(res2[1], dtype=float)), np.isfinite(spec)):
            out.fail('reload-spectrum@%s,%s,finiteness' % (c['family'], c['temp']), 'finite values became non-finite (or back) on reload')
    elif not close(np.asarray(res2[1], dtype=float), spec, rtol=1e-10, atol=lic + 1e-300):
        out.fail('reload-spectrum@%s,%s' % (c['family'], c['temp']), 'reloaded model gives a different spectrum (max rel %.2e)' % maxrel(res2[1], spec))
    return bool(nondefault >= 2)


def _num(v):
    return float('nan') if v is None else float(v)


def compare_obj(out, obj, h5, path):
    """an arbitrary stored python object against what h5py reads back under the same name (the storage rules of
    store_dictionary: dict -> group, array -> dataset, number -> scalar, str -> string, list/tuple of numbers -> array,
    of strings -> string table, of dicts -> name0, name1, ...)"""
    import h5py
    if isinstance(obj, dict):
        if not isinstance(h5, (h5py.Group, h5py.File)):
            out.fail('solution-roundtrip@group', '%s is not a group' % path)
            return 0
        n = 0
        for k, v in obj.items():
            if isinstance(v, (list, tuple)) and len(v) > 0 and all(isinstance(x, dict) for x in v):
                for i, sub in enumerate(v):
                    name = '%s%d' % (k, i)
                    if name not in h5:
                        out.fail('solution-roundtrip@missing', '%s/%s missing' % (path, name))
                    else:
                        n += compare_obj(out, sub, h5[name], '%s/%s' % (path, name))
                continue
            if v is None:
                continue
            if k not in h5:
                out.fail('solution-roundtrip@missing', '%s/%s (%s) missing; have %s' % (path, k, type(v).__name__, list(h5.keys())[:12]))
                continue
            n += compare_obj(out, v, h5[k], '%s/%s' % (path, k))
        return n
    got = h5[()]
    if isinstance(obj, str):
        sgot = got.decode() if isinstance(got, bytes) else got
        if sgot != obj:
            out.fail('solution-roundtrip@string', '%s: stored %r read %r' % (path, obj, sgot))
        return 1
    if isinstance(obj, (list, tuple)) and len(obj) > 0 and all(isinstance(x, str) for x in obj):
        rd = [x.decode() if isinstance(x, bytes) else str(x) for x in np.asarray(got).ravel()]
        if rd != list(obj):
            out.fail('solution-roundtrip@strlist', '%s: stored %r read %r' % (path, obj, rd))
        return 1
    try:
        want = np.asarray(obj, dtype=float)
    except (TypeError, ValueError):
        out.cls('solution:unjudged-type:%s' % type(obj).__name__)
        return 0
    g = np.asarray(got, dtype=float)
    if g.shape != want.shape or not np.array_equal(g, want, equal_nan=True):
        out.fail('solution-roundtrip@values', '%s: stored shape %s read shape %s%s' % (path, want.shape, g.shape,
                 '' if g.shape != want.shape else ', max abs diff %.3e' % float(np.nanmax(np.abs(g - want)))))
    return 1


def check_retrieval_output(out, c, tmp):
    """what a retrieval run stores: the solution dictionary returned by fit() and the optimizer's own description"""
    import contextlib
    import io
    import random
    import h5py
    from taurex.output.hdf5 import HDF5Output
    from taurex import OutputSize
    from vlib.props import c09
    from vlib import doubles
    r = c['ret']
    R = c09.Retrieval(out, r, tmp)
    if not R.ok or not R.order:
        out.cls('degenerate-world')
        return False
    size = {'heavy': OutputSize.heavy, 'light': OutputSize.light, 'lighter': OutputSize.lighter}[r['size']]
    random.seed(12345)
    with doubles.sampler_doubles(result=c09.deliver(R, tmp)):
        with contextlib.redirect_stdout(io.StringIO()), np.errstate(all='ignore'):
            solution = cut(out, 'fit@nestle', R.opt.fit, size)
    fn = os.path.join(tmp, 'retrieval.h5')
    with HDF5Output(fn) as o:
        og = o.create_group('Output')
        cut(out, 'store_dictionary@solution', og.store_dictionary, solution, 'Solutions')
        cut(out, 'optimizer.write', R.opt.write, o)
    out.applies('solution-roundtrip')
    with h5py.File(fn, 'r') as f:
        n = compare_obj(out, solution, f['Output']['Solutions'], 'Output/Solutions')
        out.applies('optimizer-description')
        if 'Optimizer' not in f:
            out.fail('optimizer-description@missing', 'no Optimizer group (have %s)' % list(f.keys()))
        else:
            g = f['Optimizer']

            def strs(ds):
                return [x.decode() if isinstance(x, bytes) else str(x) for x in np.asarray(ds[()]).ravel()]
            name = g['optimizer'][()]
            name = name.decode() if isinstance(name, bytes) else name
            lows = [p_.boundaries()[0] for p_ in R.opt.fitting_priors]
            highs = [p_.boundaries()[1] for p_ in R.opt.fitting_priors]
            if name != type(R.opt).__name__ or strs(g['fit_parameter_names']) != list(R.opt.fit_names) or \
                    not np.array_equal(np.asarray(g['fit_boundary_low'][()], dtype=float), np.array(lows, dtype=float)) or \
                    not np.array_equal(np.asarray(g['fit_boundary_high'][()], dtype=float), np.array(highs, dtype=float)):
                out.fail('optimizer-description@values', 'stored optimizer name / fitted names / prior boundaries differ from the optimizer')
            if R.derived and strs(g['derived_parameter_names']) != list(R.opt.derived_names):
                out.fail('optimizer-description@derived', 'stored derived names differ')
    return bool(n >= 20)


def check(case):
    out = Outcome()
    part = case['part']
    out.cls('part:' + part)
    tmp = tempfile.mkdtemp(prefix='verif_c16_')
    try:
        fn = {'dict': check_dict, 'spectrum': check_spectrum, 'model': check_model, 'retrieval': check_retrieval_output}[part]
        out.nontrivial = bool(fn(out, case, tmp))
    except CutError:
        pass
    finally:
        shutil.rmtree(tmp, ignore_errors=True)
    return out
