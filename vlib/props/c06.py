"""C06 — every sampler is handed the Gaussian log-likelihood of the binned model."""
import importlib
import math
import shutil
import statistics
import tempfile
import numpy as np
from hypothesis import strategies as st

from vlib.runner import Outcome, cut, CutError, close
from vlib import synth, doubles, strategies as S
from vlib.props.c05 import overlap_mean, midpoint_widths

ID = 'C06'
TITLE = 'sampler callbacks'
CASES = {'quick': 200, 'thorough': 9600}
SHARDS = {'quick': 1, 'thorough': 16}
RULE = ('Generated: a small retrievable world (transmission or emission, isothermal, 1-2 molecules, cloud deck), '
        '1-5 fitted parameters out of {planet_radius, T, molecule abundances, fill ratio, clouds_pressure} each '
        'with its own prior (Uniform / LogUniform / Gaussian / LogGaussian, distinct parameters so that a '
        'permutation cannot hide), an observation of 3-6 bins with unsorted rows, 3 or 4 columns and '
        'heteroscedastic errors that is NOT generated from the model, a wrapped sampler (nestle, MultiNest, '
        'PolyChord; external libraries replaced by recording doubles) and a sequence of 4-14 unit-cube points of '
        'which some describe an invalid atmosphere (abundances summing above one).  Non-trivial = >=2 fitted '
        'parameters with different priors and >=3 bins of unequal error; distinct by case hash.'
        ' Histories: the optimizer may first be bound to another observation and re-targeted before or AFTER a first likelihood evaluation; a third of the observations carry a fitted parameter of their own (obs_scale) that rescales the data.')
ASSUMPTIONS = [
    'pymultinest / pypolychord are absent: the doubles implement the documented callback contracts (MultiNest: Prior(cube, ndim, nparams) transforms cube in place, LogLikelihood(cube, ndim, nparams); PolyChord: prior(hypercube) returns the physical vector, loglikelihood(theta) returns (logL, derived)); dyPolyChord is not covered',
    'reference chi^2: an independent model instance with parameters set by name to prior-transformed values, evaluated on the same restricted grid and binned with the C05 overlap-mean reference over [centre - width/2, centre + width/2]; rtol 1e-8',
    'reference inverse CDFs: closed form (uniform) and statistics.NormalDist.inv_cdf (normal)',
    'Gaussian priors are kept within +/-10 % of physical nominal values (negative temperatures etc. are not among the invalid-atmosphere classes of the statement)',
    'chi^2 == 0 (model equal to data) is outside the domain (the code maps it to NaN on purpose)',
]
RULE = RULE + ' ' + 'Also: observation bins as narrow as the native spacing (the clipped native grid then often has exactly as many points as there are bins), and observations holding spectrum and error bars as 2-D arrays; cases stratified by sampler.'
REQUIRED = {'default-log-prior-after-refused-mode': 0.03, 'native-count-equals-bins': 0.05, 'observation:2-d-arrays': 0.1, 'extreme-error-bars': 0.1, 'retargeted:after-use': 0.1, 'retargeted:before-use': 0.1, 'observation-parameter-fitted': 0.15, 'sampler:nestle': 0.1, 'sampler:multinest': 0.1, 'sampler:polychord': 0.06, 'has-invalid-point': 0.1}

POOL = ['planet_radius', 'T', 'mol0', 'mol1', 'fill', 'clouds_pressure']


STRATA = {'nestle': 2, 'multinest': 1, 'polychord': 1}
STRATA_KEY = 'sampler'


@st.composite
def _case(draw, sampler=None):
    sampler = sampler or draw(st.sampled_from(['nestle', 'multinest', 'polychord', 'nestle']))
    family = draw(st.sampled_from(['transmission', 'emission', 'transmission']))
    k = draw(S.ints(1, 5))
    fitted = draw(S.perm(POOL))[:k]
    if 'mol0' not in fitted and draw(st.booleans()):
        fitted = ['mol0'] + list(fitted)[:4]
    pri = {}
    for p in fitted:
        pri[p] = {'kind': draw(st.sampled_from(['Uniform', 'LogUniform', 'Gaussian', 'LogGaussian'])),
                  'a': draw(st.floats(0.2, 0.9)), 'b': draw(st.floats(1.1, 3.0)), 'std': draw(st.floats(0.01, 0.05))}
    nb = draw(S.ints(3, 6))
    obs = {'nb': nb, 'cols': draw(st.sampled_from([4, 3])), 'perm': draw(S.perm(list(range(nb)))),
           'noise': draw(st.lists(st.floats(-1, 1), min_size=nb, max_size=nb)),
           'err': draw(st.lists(st.floats(0.2, 3.0), min_size=nb, max_size=nb)),
           'pos': draw(st.floats(0.05, 0.95)), 'wfac': draw(st.lists(st.floats(0.3, 0.9), min_size=nb, max_size=nb)),
           'obs_param': draw(st.sampled_from([True, False, False])), 'err_mag': draw(st.sampled_from([0, -110, 0, 110, 0])),
           # bins about as wide as the native spacing (an observation as fine as the model grid): the clipped native grid
           # then often holds exactly as many points as there are bins -- at other positions
           'narrow': draw(st.sampled_from([None, 0.8, None, 1.0, 0.9, None, 0.7])),
           # the spectrum and its error bars held as 2-D arrays (rows of a light-curve-like layout), same numbers
           'two_d': draw(st.sampled_from([False, False, True]))}
    npts = draw(S.ints(4, 14))
    pts = [{'u': draw(st.lists(st.floats(0.02, 0.98), min_size=5, max_size=5)),
            'invalid': draw(st.sampled_from([True, False, False]))} for _ in range(npts)]
    w = draw(S.world(layers=(3, 10), nwn=(24, 40), max_active=2, extras=('SimpleClouds',), temps=('iso',),
                     mags=['mixed']))
    w['extras'] = ['SimpleClouds'] if family == 'transmission' else []      # a cloud deck blanks the emission spectrum
    w['fill'] = ['H2', 'He']
    return {'world': w, 'sampler': sampler, 'family': family, 'fitted': list(fitted), 'priors': pri, 'obs': obs,
            'points': pts, 'ngauss': draw(S.ints(1, 3)), 'retarget': draw(st.sampled_from(['after-use', 'before-use', False, 'after-use', 'before-use', False])),
            # log-uniform priors given as mode + bounds (the default prior) instead of an explicit prior object, with a refused
            # set_mode call (a mode that does not exist; the caller catches the error) afterwards
            'default_log_priors': draw(S.pick([False, True, False, True]))}


def strategy(tier, part=None):
    return _case(part)


def param_name(role, w):
    mols = [g['mol'] for g in w['gases'] if g['table'] is not None]
    if role == 'mol0':
        return mols[0]
    if role == 'mol1':
        return mols[1] if len(mols) > 1 else None
    if role == 'fill':
        return 'He_H2'
    return role


def build(w, family, ngauss):
    W = synth.build_world(w)
    kw = {'ngauss': ngauss} if family == 'emission' else {}
    m = synth.make_model(W, family, None, **kw)
    return W, m


def make_prior_spec(role, spec, nominal):
    """(kind, kwargs) and whether a sample can make the atmosphere invalid"""
    kind = spec['kind']
    if role in ('mol0', 'mol1'):
        # abundances: upper end above unity so that the unit cube contains invalid atmospheres
        if kind in ('Uniform', 'Gaussian'):
            return 'Uniform', {'bounds': [nominal * spec['a'], 1.8]}
        return 'LogUniform', {'bounds': [math.log10(nominal * spec['a']), 0.3]}
    if kind == 'Uniform':
        return kind, {'bounds': [nominal * spec['b'], nominal * spec['a']]}       # reversed on purpose
    if kind == 'LogUniform':
        return kind, {'lin_bounds': [nominal * spec['a'], nominal * spec['b']]}
    if kind == 'Gaussian':
        return kind, {'mean': nominal, 'std': nominal * spec['std']}
    return kind, {'lin_mean': nominal, 'std': spec['std']}


def ref_inverse(kind, kw, u):
    if 'Uniform' in kind:
        b = [math.log10(x) for x in kw['lin_bounds']] if 'lin_bounds' in kw else list(kw['bounds'])
        lo, hi = min(b), max(b)
        return lo + u * (hi - lo)
    mu = math.log10(kw['lin_mean']) if 'lin_mean' in kw else kw['mean']
    return statistics.NormalDist(mu, kw['std']).inv_cdf(u)


def make_observation(out, o, native, nspec, w):
    """observation with bins at least 4 native spacings wide, rows shuffled, not generated from the model"""
    from taurex.data.spectrum import ArraySpectrum
    nb = o['nb']
    spacing = w['dwn']
    span = native[-1] - native[0]
    width = max(4.0 * spacing, 0.8 * span / (nb + 1))
    if o.get('narrow'):
        width = o['narrow'] * spacing
    if width * (nb - 1) > 0.9 * span:
        nb = max(2, int(0.9 * span / width))
    c0 = native[0] + 0.6 * width + o['pos'] * max(span - width * (nb - 1) - 1.2 * width, 0.0)
    centres = c0 + width * np.arange(nb)
    scale = float(np.median(np.abs(nspec))) or 1.0
    val = scale * (1.0 + 0.05 * np.array(o['noise'][:nb]))
    # error bars of any magnitude are legal: 10^(+-110) makes the PRODUCT of the normalisation factors leave the double
    # range while their logarithms are perfectly ordinary numbers
    err = 0.02 * scale * np.array(o['err'][:nb]) * 10.0 ** o.get('err_mag', 0)
    wl = 10000.0 / centres
    dwl = 10000.0 * (width * np.array(o['wfac'][:nb])) / centres ** 2
    rows = np.array([wl, val, err] + ([dwl] if o['cols'] == 4 else [])).T
    perm = [i for i in o['perm'] if i < nb]
    klass = scaled_observation_class() if o.get('obs_param') else ArraySpectrum
    if o.get('two_d'):
        out.cls('observation:2-d-arrays')
        klass = two_d_observation_class(klass)
    return cut(out, 'observation', klass, rows[perm].copy())


_TWO_D = {}


def two_d_observation_class(base):
    """the same observation with spectrum and error bars held as 2-D arrays (2 x n/2, or 1 x n): the layout of the
    light-curve observation class, which the likelihood handles by flattening"""
    if base in _TWO_D:
        return _TWO_D[base]

    class TwoD(base):
        @staticmethod
        def _fold(a):
            a = np.asarray(a)
            return a.reshape(2, -1) if a.size % 2 == 0 else a.reshape(1, -1)

        @property
        def spectrum(self):
            return self._fold(base.spectrum.fget(self))

        @property
        def errorBar(self):
            return self._fold(base.errorBar.fget(self))
    TwoD.__name__ = 'TwoD' + base.__name__
    _TWO_D[base] = TwoD
    return TwoD


_SCALED = []


def scaled_observation_class():
    """an observation with a fitting parameter of its own that rescales the data (an instrument calibration
    factor): the likelihood must compare the model with the observation AS IT IS at the sampled point"""
    if _SCALED:
        return _SCALED[0]
    from taurex.data.spectrum import ArraySpectrum
    from taurex.core import fitparam

    class ScaledObservation(ArraySpectrum):
        def __init__(self, arr):
            super().__init__(arr)
            self._scale = 1.0

        @property
        def spectrum(self):
            return self._obs_spectrum[:, 1] * self._scale

        @fitparam(param_name='obs_scale', param_latex='s', default_mode='linear', default_fit=False, default_bounds=[0.5, 2.0])
        def scale(self):
            return self._scale

        @scale.setter
        def scale(self, value):
            self._scale = value
    _SCALED.append(ScaledObservation)
    return ScaledObservation


@st.composite
def observation_spec(draw):
    nb = draw(S.ints(3, 6))
    return {'nb': nb, 'cols': draw(st.sampled_from([4, 3])), 'perm': draw(S.perm(list(range(nb)))),
            'noise': draw(st.lists(st.floats(-1, 1), min_size=nb, max_size=nb)),
            'err': draw(st.lists(st.floats(0.2, 3.0), min_size=nb, max_size=nb)),
            'pos': draw(st.floats(0.05, 0.95)), 'wfac': draw(st.lists(st.floats(0.3, 0.9), min_size=nb, max_size=nb)),
            'obs_param': draw(st.sampled_from([False, True, False]))}


def check(case):
    from taurex.core import priors as P
    from taurex.data.spectrum import ArraySpectrum
    from taurex.exceptions import InvalidModelException
    out = Outcome()
    w = case['world']
    sampler = case['sampler']
    out.cls('sampler:' + sampler)
    out.cls('family:' + case['family'])
    if case['obs'].get('err_mag'):
        out.cls('extreme-error-bars')
    tmpdir = tempfile.mkdtemp(prefix='verif_c06_')
    try:
        with doubles.sampler_doubles() as (cap, pm):
            from taurex.optimizer import NestleOptimizer
            W, m = cut(out, 'build', build, w, case['family'], case['ngauss'])
            W2, m2 = build(w, case['family'], case['ngauss'])     # independent instance for the reference
            with np.errstate(all='ignore'):
                nominal = cut(out, 'model', m.model)
            native = np.asarray(nominal[0], dtype=float)
            nspec = np.asarray(nominal[1], dtype=float)
            if not np.all(np.isfinite(nspec)) or np.all(nspec == 0):
                out.cls('degenerate-world')
                return out
            obs = make_observation(out, case['obs'], native, nspec, w)
            owl = np.asarray(obs.wavelengthGrid, dtype=float)
            own = np.asarray(obs.wavenumberGrid, dtype=float)
            oww = np.asarray(obs.binWidths, dtype=float)
            oval = np.asarray(obs.spectrum, dtype=float).ravel()
            oerr = np.asarray(obs.errorBar, dtype=float).ravel()
            # ---- optimizer -----------------------------------------------------------------------------
            # history: the optimizer is first bound to a DIFFERENT observation (other bin layout) and
            # then re-targeted with set_observed(); the callbacks must refer to the current one
            retarget = case.get('retarget')
            retarget = 'before-use' if retarget is True else (retarget or None)
            final_obs = obs
            if retarget:
                out.cls('retargeted')
                out.cls('retargeted:' + retarget)
                o2 = dict(case['obs'])
                o2['nb'] = 3 if case['obs']['nb'] != 3 else 5
                for k_ in ('noise', 'err', 'wfac'):
                    o2[k_] = list(np.resize(np.array(case['obs'][k_], dtype=float), o2['nb']))
                o2['perm'] = list(range(o2['nb']))[::-1]
                o2['pos'] = 1.0 - case['obs']['pos']
                obs = make_observation(out, o2, native, nspec * 1.7, w)
            if sampler == 'nestle':
                opt = cut(out, 'optimizer', NestleOptimizer, observed=obs, model=m, num_live_points=10)
            elif sampler == 'multinest':
                mod = importlib.import_module('taurex.optimizer.multinest')
                opt = cut(out, 'optimizer', mod.MultiNestOptimizer, multi_nest_path=tmpdir, observed=obs, model=m)
            else:
                mod = importlib.import_module('taurex.optimizer.polychord')
                opt = cut(out, 'optimizer', mod.PolyChordOptimizer, polychord_path=tmpdir, observed=obs, model=m)
            if retarget == 'before-use':
                cut(out, 'set_observed', opt.set_observed, final_obs)
                obs = final_obs
            roles = [r for r in case['fitted'] if param_name(r, w) is not None and param_name(r, w) in m.fittingParameters]
            for p in list(m.fittingParameters):
                opt.disable_fit(p)
            specs = {}
            for r in roles:
                name = param_name(r, w)
                nom = float(m[name])
                kind, kw = make_prior_spec(r, case['priors'][r], nom)
                specs[name] = (kind, kw)
                opt.enable_fit(name)
                if case.get('default_log_priors') and kind == 'LogUniform' and 'lin_bounds' in kw:
                    out.cls('default-log-prior-after-refused-mode')
                    opt.set_mode(name, 'log')
                    opt.set_boundary(name, list(kw['lin_bounds']))
                    try:
                        opt.set_mode(name, 'ln')
                    except Exception:
                        pass
                else:
                    opt.set_prior(name, getattr(P, kind)(**kw))
            if not roles:
                out.cls('nothing-fitted')
                return out
            obs_param = bool(case['obs'].get('obs_param'))
            if obs_param:
                out.cls('observation-parameter-fitted')
                if retarget == 'after-use':
                    opt.enable_fit('obs_scale')
                    opt.set_prior('obs_scale', P.Uniform(bounds=[0.6, 1.7]))
            if retarget == 'after-use':
                # the optimizer is USED with the first observation (a likelihood is evaluated) before it is pointed at
                # the final one: nothing of the first use may survive
                cut(out, 'compile_params', opt.compile_params)
                try:
                    opt.compute_fit()
                except doubles.Captured:
                    pass
                except Exception as e:
                    out.fail('sampler-called@%s,raises:%s' % (sampler, type(e).__name__), str(e)[:200])
                    return out
                nd0 = cap.ndim
                u0 = np.full(nd0 + 2, 0.5)
                with np.errstate(all='ignore'):
                    try:
                        if sampler == 'nestle':
                            cap.loglike(cap.prior(u0[:nd0]))
                        elif sampler == 'multinest':
                            cap.prior(u0, nd0, nd0)
                            cap.loglike(u0, nd0, nd0)
                        else:
                            cap.loglike(np.asarray(cap.prior(u0[:nd0])))
                    except Exception as e:
                        out.fail('loglike-callback-raises@%s,first-observation' % sampler, '%s: %s' % (type(e).__name__, e))
                        return out
                cut(out, 'set_observed', opt.set_observed, final_obs)
                obs = final_obs
            if obs_param:
                opt.enable_fit('obs_scale')
                opt.set_prior('obs_scale', P.Uniform(bounds=[0.6, 1.7]))
                specs['obs_scale'] = ('Uniform', {'bounds': [0.6, 1.7]})
            cut(out, 'compile_params', opt.compile_params)
            order = [p for p in m.fittingParameters if p in specs] + (['obs_scale'] if obs_param else [])   # model order, then observation
            ndim = len(order)
            try:
                opt.compute_fit()
                out.fail('sampler-called@' + sampler, 'compute_fit returned without calling the sampler')
                return out
            except doubles.Captured:
                pass
            except Exception as e:
                out.fail('sampler-called@%s,raises:%s' % (sampler, type(e).__name__), str(e)[:200])
                return out
            out.applies('callback-dimensions')
            if cap.ndim != ndim:
                out.fail('callback-dimensions@' + sampler, 'sampler told %r dimensions for %d fitted parameters' % (cap.ndim, ndim))
                return out

            def call_prior(u):
                if sampler == 'nestle':
                    return [float(x) for x in cap.prior(np.array(u))]
                if sampler == 'multinest':
                    cube = np.array(list(u) + [0.0, 0.0])
                    r = cap.prior(cube, ndim, ndim)
                    return [float(x) for x in cube[:ndim]]
                return [float(x) for x in cap.prior(np.array(u))]

            def call_like(x):
                if sampler == 'nestle':
                    return cap.loglike(np.array(x))
                if sampler == 'multinest':
                    return cap.loglike(np.array(list(x) + [0.0, 0.0]), ndim, ndim)
                r = cap.loglike(np.array(x))
                if not (isinstance(r, tuple) and len(r) == 2):
                    out.fail('polychord-return-shape', 'loglikelihood returned %r, expected (logL, derived)' % (r,))
                    raise CutError('shape')
                return r[0]

            def reference(x):
                oscale = 1.0
                for name, xv in zip(order, x):
                    kind, kw = specs[name]
                    if name == 'obs_scale':
                        oscale = xv
                        continue
                    m2[name] = (10.0 ** xv) if kind.startswith('Log') else xv
                with np.errstate(all='ignore'):
                    g, s, _, _ = m2.model(wngrid=own.copy())
                g = np.asarray(g, dtype=float)
                s = np.asarray(s, dtype=float)
                if len(g) == len(own):
                    out.cls('native-count-equals-bins')
                e, nw = midpoint_widths(g)
                chi = 0.0
                exact = True
                for i in range(len(own)):
                    v, _, tot, _, _ = overlap_mean(g - nw / 2, g + nw / 2, s, own[i] - oww[i] / 2, own[i] + oww[i] / 2)
                    if tot <= 0:
                        return None
                    chi += ((oval[i] * oscale - float(v)) / oerr[i]) ** 2
                    exact = exact and abs(oval[i] * oscale - float(v)) <= 1e-12 * abs(oval[i])
                # an exact fit up to rounding: whether chi^2 is exactly 0 (-> NaN on purpose) or 1e-30 depends on the
                # order of the floating-point sums, so it is excluded like chi^2 == 0
                if chi == 0.0 or exact:
                    out.cls('chi2-zero-excluded')      # the code maps an exact fit to NaN on purpose
                    return None
                return -float(np.sum(np.log(oerr * math.sqrt(2 * math.pi)))) - 0.5 * chi

            n_invalid = 0
            memo = {}
            unequal = len(set(np.round(oerr / oerr[0], 9))) > 1
            for pt in case['points']:
                u = [pt['u'][i_ % len(pt['u'])] for i_ in range(ndim)]
                if pt['invalid']:
                    for i, name in enumerate(order):
                        if name in [param_name('mol0', w), param_name('mol1', w)]:
                            u[i] = 0.985
                want_x = [ref_inverse(*specs[name], u[i % len(u)]) for i, name in enumerate(order)]
                out.applies('prior-callback')
                got_x = cut(out, 'prior-callback@' + sampler, call_prior, u)
                if len(got_x) != ndim or not close(got_x, want_x, rtol=1e-9, atol=1e-12):
                    out.fail('prior-callback@%s' % sampler, 'order %s: got %s want %s' % (order, got_x, want_x))
                    break
                # reference verdict first (independent instance)
                try:
                    want = reference(want_x)
                    invalid = False
                except InvalidModelException:
                    want, invalid = None, True
                with np.errstate(all='ignore'):
                    got = cut(out, 'loglike-callback-raises@%s,%s' % (sampler, 'invalid' if invalid else 'valid'), call_like, want_x)
                if invalid:
                    n_invalid += 1
                    out.applies('invalid-not-finite')
                    if np.isfinite(got):
                        out.fail('invalid-not-finite@' + sampler, 'invalid atmosphere got a finite likelihood %r' % got)
                    continue
                if want is None or not np.isfinite(want):
                    continue
                out.applies('loglike-value')
                if not close(got, want, rtol=1e-8, atol=1e-9):
                    out.fail('loglike-value@%s,%s' % (sampler, case['family']), 'got %r want %r at %s=%s' % (got, want, order, want_x))
                    break
                key = tuple(float(v) for v in want_x)
                memo[key] = got
            # a valid point evaluated again after invalid ones gives the same value (no state leak)
            if n_invalid and memo:
                out.cls('has-invalid-point')
                key, first = next(iter(memo.items()))
                out.applies('no-state-leak')
                with np.errstate(all='ignore'):
                    again = cut(out, 'loglike-callback-raises@%s,valid' % sampler, call_like, list(key))
                if not close(again, first, rtol=1e-12):
                    out.fail('no-state-leak@' + sampler, 'same point gives %r then %r after invalid evaluations' % (first, again))
            kinds = {specs[n][0] for n in order}
            out.nontrivial = bool(ndim >= 2 and len(kinds) >= 2 and len(own) >= 3 and unequal)
    except CutError:
        pass
    finally:
        shutil.rmtree(tmpdir, ignore_errors=True)
    return out
