"""C07 — retrieval set-up depends only on current settings; updates touch only fitted parameters."""
import copy
import math
import numpy as np
from hypothesis import strategies as st

from vlib.runner import Outcome, cut, CutError, close
from vlib import synth, strategies as S

ID = 'C07'
TITLE = 'retrieval set-up'
CASES = {'quick': 300, 'thorough': 24000}
SHARDS = {'quick': 1, 'thorough': 16}
RULE = ('Generated: a history of 5-40 optimizer calls (enable_fit, disable_fit, set_mode, set_boundary, '
        'set_factor_boundary, set_prior with all four prior classes matching or mismatching the parameter mode, '
        'enable_derived, disable_derived, compile_params, update_model with a vector drawn through the priors, '
        'and each API with an unknown name) over the parameters of a synthetic transmission model and of an '
        'observation carrying its own fit parameter; a plain-dict model of the settings is updated alongside.  '
        'After every compile the views are compared with what the settings imply and, at the end, with a fresh '
        'optimizer on a fresh world configured directly to the final settings.  Non-trivial = a setting changed '
        'after a first compile and >=2 fitted parameters at a later compile; distinct by case hash.')
ASSUMPTIONS = [
    'a parameter is reported in the space of its prior: log10 of value and bounds under a log-space prior (name log_<p>), as is otherwise',
    'implied prior = the prior given with set_prior, else Uniform(bounds) / LogUniform(lin_bounds=bounds) by mode (C08)',
    'fit order = model parameters in the order the model lists them, then observation parameters',
    'planet_sma is a documented alias of planet_distance and follows it; when both names are fitted the one later in fitting order determines the value',
    'bounds and values are positive (log modes are defined for them)',
]
RULE = RULE + ' ' + 'Also: bounds moved by 1e-9..1e-4 relative or of trace size after a compile; update_model handed a float64 ndarray twice (the vector must be left as given and a second write must change nothing).'
REQUIRED = {'refused-prior-then-observation-exchanged': 0.1, 'rejected-mode-on-log-parameter': 0.05, 'observation:derived-only': 0.1, 'recompile-after-change': 0.3, 'prior-mode-mismatch': 0.08, 'derived-toggled': 0.2, 'has-update': 0.3,
            'unknown-name': 0.1, 'bounds-nudged-after-compile': 0.04, 'tiny-bounds-after-compile': 0.03}
# coverage-guided extra (thorough tier): pure-Python taurex modules on this property's path, instrumented by atheris
FUZZ = {'include': ['taurex.optimizer.optimizer', 'taurex.core', 'taurex.data.fittable'], 'runs': 12000, 'workers': 4}

PRIORS = ['Uniform', 'LogUniform', 'Gaussian', 'LogGaussian']
OPS = ['enable_fit', 'compile', 'set_boundary', 'set_mode', 'set_prior', 'update', 'disable_fit', 'set_factor_boundary',
       'enable_derived', 'disable_derived', 'compile', 'unknown', 'enable_fit', 'update', 'bad_mode']


@st.composite
def _op_of(draw, kind):
    return draw(_op(kind))


@st.composite
def _op(draw, kind=None):
    op = kind or draw(st.sampled_from(OPS))
    d = {'op': op, 'p': draw(S.ints(0, 11))}
    if op == 'set_mode':
        d['mode'] = draw(st.sampled_from(['log', 'linear', 'LOG', 'Linear']))
    elif op == 'set_boundary':
        lo = draw(st.sampled_from([-6, -6, -13]))        # -13: trace-abundance sized bounds
        d['b'] = sorted([10.0 ** draw(st.floats(lo, 3 if lo == -6 else -8)), 10.0 ** draw(st.floats(lo, 3 if lo == -6 else -8))])
        if draw(S.ints(0, 3)) == 0:
            # move the bounds in force by a small relative amount instead (a refinement of an earlier choice)
            d['nudge'] = [draw(st.sampled_from([-1.0, 1.0])) * 10.0 ** draw(st.floats(-9, -4)) for _ in range(2)]
    elif op == 'set_factor_boundary':
        d['f'] = [draw(st.floats(0.05, 0.95)), draw(st.floats(1.05, 20.0))]
    elif op == 'set_prior':
        k = draw(st.sampled_from(PRIORS))
        d['kind'] = k
        if 'Uniform' in k:
            d['args'] = {'bounds': sorted([draw(st.floats(-5, 3)), draw(st.floats(-5, 3))])}
        else:
            d['args'] = {'mean': draw(st.floats(-3, 3)), 'std': draw(st.floats(0.1, 2.0))}
    elif op == 'update':
        d['u'] = draw(st.lists(st.floats(0.05, 0.95), min_size=14, max_size=14))
    elif op == 'bad_mode':
        d['mode'] = draw(st.sampled_from(['log10', 'ln', '', 'lin', 'Logarithmic']))
    elif op == 'unknown':
        d['api'] = draw(st.sampled_from(['enable_fit', 'disable_fit', 'set_mode', 'set_boundary', 'set_factor_boundary',
                                         'set_prior', 'enable_derived', 'disable_derived']))
    return d


SETTING_OPS = ['set_prior', 'enable_fit', 'set_boundary', 'set_mode', 'enable_fit', 'set_prior', 'disable_fit',
               'set_factor_boundary', 'enable_derived', 'disable_derived', 'unknown', 'bad_mode', 'bad_mode']


@st.composite
def _case(draw):
    """a history in phases: settings ..., compile, [update], [compile] - so that settings change after a compile"""
    nph = draw(S.ints(2, 4))
    ops = []
    for _ in range(nph):
        k = draw(S.ints(1, 7))
        for _ in range(k):
            o = draw(_op())
            if o['op'] in ('compile', 'update'):
                o = dict(o, op=draw(st.sampled_from(SETTING_OPS)))
                o = draw(_op_of(o['op']))
            o['p'] = draw(st.sampled_from([1, -1, 6, 1, 11, -1, 4, 0, 3, 7, 9]))     # -1: the last parameter, i.e. the observation's own
            ops.append(o)
        ops.append({'op': 'compile', 'p': 0})
        if draw(st.booleans()):
            ops.append({'op': 'update', 'p': 0, 'u': draw(st.lists(st.floats(0.05, 0.95), min_size=14, max_size=14))})
            if draw(st.booleans()):
                ops.append({'op': 'compile', 'p': 0})
    w = draw(S.world(layers=(2, 6), nwn=(2, 3), max_active=2, extras=('SimpleClouds',), temps=('iso',), mags=['mixed']))
    w['extras'] = ['SimpleClouds']
    w['obs_kind'] = draw(st.sampled_from(['fit', 'derived-only', 'fit']))
    return {'world': w, 'ops': ops, 'late_observation': draw(S.pick([False, True, False, True]))}


def strategy(tier):
    return _case()


def make_world(w):
    from taurex.data.spectrum import ArraySpectrum
    from taurex.core import fitparam, derivedparam

    class FitObs(ArraySpectrum):
        def __init__(self, arr):
            super().__init__(arr)
            self._offset = 3.5

        @fitparam(param_name='obs_offset', param_latex='off', default_mode='linear', default_fit=False,
                  default_bounds=[0.5, 9.0])
        def offset(self):
            return self._offset

        @offset.setter
        def offset(self, value):
            self._offset = value

        @derivedparam(param_name='obs_double', param_latex='dbl', compute=False)
        def dbl(self):
            return 2 * self._offset

    class DerivedOnlyObs(ArraySpectrum):
        """an observation with nothing to fit but something to derive (the smallest legal parameter table: empty)"""
        @derivedparam(param_name='obs_mean', param_latex='mean', compute=False)
        def mean_flux(self):
            return float(np.mean(self.spectrum))
    W = synth.build_world(w)
    m = synth.make_model(W, 'transmission')
    wl = 10000.0 / W.wn
    klass = DerivedOnlyObs if w.get('obs_kind') == 'derived-only' else FitObs
    obs = klass(np.array([wl, 1e-3 * np.ones(len(wl)), 1e-5 * np.ones(len(wl))]).T)
    return W, m, obs


def make_prior(kind, args):
    from taurex.core import priors as P
    return getattr(P, kind)(**{k: (list(v) if isinstance(v, list) else v) for k, v in args.items()})


def implied(settings, order, current):
    """views implied by the settings alone"""
    names, values, bounds, priors = [], [], [], []
    for p in order:
        s = settings[p]
        if not s['fit']:
            continue
        if s['prior'] is not None:
            kind, args = s['prior']
        elif s['mode'] == 'log':
            kind, args = 'LogUniform', {'lin_bounds': list(s['bounds'])}
        else:
            kind, args = 'Uniform', {'bounds': list(s['bounds'])}
        log = kind.startswith('Log')
        names.append('log_' + p if log else p)
        values.append(math.log10(current[p]) if log else current[p])
        bounds.append((math.log10(s['bounds'][0]), math.log10(s['bounds'][1])) if log else tuple(s['bounds']))
        priors.append((kind, args))
    return names, values, bounds, priors


def prior_sig(pr):
    b = pr.boundaries()
    return (type(pr).__name__, float('%.13g' % float(b[0])), float('%.13g' % float(b[1])))


def check(case):
    from taurex.optimizer import Optimizer
    out = Outcome()
    w = case['world']
    out.cls('observation:' + w.get('obs_kind', 'fit'))
    try:
        W, m, obs = cut(out, 'build', make_world, w)
        if case.get('late_observation') and 'obs_offset' in obs.fittingParameters:
            # the optimizer is first bound to a plain observation without parameters of its own; a prior for the parameter
            # the later observation will bring is refused (the caller catches the error); then the observation is exchanged
            from taurex.data.spectrum.array import ArraySpectrum
            plain = ArraySpectrum(np.array(obs.rawData, dtype=float, copy=True))
            opt = cut(out, 'optimizer', Optimizer, 'verif', observed=plain, model=m)
            try:
                opt.set_prior('obs_offset', make_prior('Gaussian', {'mean': 100.0, 'std': 1.0}))
            except Exception:
                out.cls('refused-prior-then-observation-exchanged')
            cut(out, 'set_observed', opt.set_observed, obs)
        else:
            opt = cut(out, 'optimizer', Optimizer, 'verif', observed=obs, model=m)
    except CutError:
        return out
    mparams = list(m.fittingParameters.keys())
    order = mparams + list(obs.fittingParameters.keys())
    dorder = list(m.derivedParameters.keys()) + list(obs.derivedParameters.keys())
    settings = {}
    for p in order:
        t = (m.fittingParameters if p in m.fittingParameters else obs.fittingParameters)[p]
        settings[p] = {'fit': bool(t[5]), 'mode': t[4], 'bounds': tuple(t[6]), 'prior': None}
    dsettings = {}
    for d in dorder:
        t = (m.derivedParameters if d in m.derivedParameters else obs.derivedParameters)[d]
        dsettings[d] = bool(t[3])

    def getter(p):
        return (m.fittingParameters if p in m.fittingParameters else obs.fittingParameters)[p][2]

    def current():
        return {p: float(getter(p)()) for p in order}

    compiled = 0
    changed_since = False
    recompiled_after_change = False
    nfit_late = 0
    mismatch = False
    for op in case['ops']:
        name = op['op']
        p = order[op['p'] % len(order)]
        d = dorder[op['p'] % len(dorder)]
        try:
            if name == 'enable_fit':
                cut(out, 'enable_fit', opt.enable_fit, p)
                settings[p]['fit'] = True
                changed_since = True
            elif name == 'disable_fit':
                cut(out, 'disable_fit', opt.disable_fit, p)
                settings[p]['fit'] = False
                changed_since = True
            elif name == 'set_mode':
                cut(out, 'set_mode', opt.set_mode, p, op['mode'])
                settings[p]['mode'] = op['mode'].lower()
                changed_since = True
            elif name == 'set_boundary':
                b = list(op['b'])
                if op.get('nudge'):
                    old = settings[p]['bounds']
                    b = [float(old[0]) * (1.0 + op['nudge'][0]), float(old[1]) * (1.0 + op['nudge'][1])]
                    if compiled:
                        out.cls('bounds-nudged-after-compile')
                elif max(b) < 1e-7 and compiled:
                    out.cls('tiny-bounds-after-compile')
                cut(out, 'set_boundary', opt.set_boundary, p, list(b))
                settings[p]['bounds'] = tuple(b)
                changed_since = True
            elif name == 'set_factor_boundary':
                v = current()[p]
                cut(out, 'set_factor_boundary', opt.set_factor_boundary, p, list(op['f']))
                settings[p]['bounds'] = (op['f'][0] * v, op['f'][1] * v)
                changed_since = True
            elif name == 'set_prior':
                cut(out, 'set_prior', opt.set_prior, p, make_prior(op['kind'], op['args']))
                settings[p]['prior'] = (op['kind'], op['args'])
                changed_since = True
            elif name == 'enable_derived':
                out.cls('derived-toggled')
                cut(out, 'enable_derived', opt.enable_derived, d)
                dsettings[d] = True
                changed_since = True
            elif name == 'disable_derived':
                out.cls('derived-toggled')
                cut(out, 'disable_derived@%s' % ('model' if d in m.derivedParameters else 'observation'), opt.disable_derived, d)
                dsettings[d] = False
                changed_since = True
            elif name == 'bad_mode':
                # a mode that is neither 'log' nor 'linear' is refused -- and a refused call changes nothing: the settings,
                # and every view compiled from them afterwards, are those in force before it
                out.cls('rejected-mode')
                out.applies('rejected-call-changes-nothing')
                try:
                    opt.set_mode(p, op['mode'])
                    out.fail('rejected-call-changes-nothing@accepted', 'set_mode(%r, %r) was accepted' % (p, op['mode']))
                    settings[p]['mode'] = op['mode'].lower()
                except Exception:
                    if settings[p]['mode'] == 'log':
                        out.cls('rejected-mode-on-log-parameter')
                changed_since = True
            elif name == 'unknown':
                out.cls('unknown-name')
                api = op['api']
                args = {'set_mode': ('log',), 'set_boundary': ([1.0, 2.0],), 'set_factor_boundary': ([0.5, 2.0],),
                        'set_prior': (make_prior('Uniform', {'bounds': [0.0, 1.0]}),)}.get(api, ())
                out.applies('unknown-name-is-error')
                try:
                    getattr(opt, api)('no_such_parameter_xyz', *args)
                    out.fail('unknown-name-is-error@' + api, '%s accepted an unknown parameter name' % api)
                except Exception:
                    pass
            elif name == 'compile':
                cut(out, 'compile_params', opt.compile_params)
                if compiled and changed_since:
                    recompiled_after_change = True
                    out.cls('recompile-after-change')
                tag = 'first-compile' if not compiled else ('recompile-after-change' if changed_since else 'recompile')
                compiled += 1
                changed_since = False
                cur = current()
                names, values, bounds, priors = implied(settings, order, cur)
                if compiled > 1:
                    nfit_late = max(nfit_late, len(names))
                for p2 in order:
                    s = settings[p2]
                    if s['fit'] and s['prior'] is not None and s['prior'][0].startswith('Log') != (s['mode'] == 'log'):
                        mismatch = True
                        out.cls('prior-mode-mismatch')
                mm = ',mismatch' if mismatch else ''
                out.applies('fit-names')
                got_names = cut(out, 'fit_names', lambda: list(opt.fit_names))
                if got_names != names:
                    out.fail('fit-names@%s%s' % (tag, mm), 'got %s implied %s' % (got_names, names))
                    continue
                out.applies('fit-priors')
                gp = [prior_sig(x) for x in opt.fitting_priors]
                wp = [prior_sig(make_prior(k, a)) for k, a in priors]
                if gp != wp:
                    i = [a != b for a, b in zip(gp, wp)].index(True) if len(gp) == len(wp) else -1
                    out.fail('fit-priors@%s%s' % (tag, mm), 'parameter %s: prior %s, settings imply %s'
                             % (names[i] if i >= 0 else '?', gp[i] if i >= 0 else gp, wp[i] if i >= 0 else wp))
                out.applies('fit-values')
                gv = cut(out, 'fit_values@%s' % (tag + mm), lambda: [float(x) for x in opt.fit_values])
                if not close(gv, values, rtol=1e-12):
                    out.fail('fit-values@%s%s' % (tag, mm), 'got %s implied %s for %s' % (gv, values, names))
                out.applies('fit-boundaries')
                gb = cut(out, 'fit_boundaries@%s' % (tag + mm), lambda: [tuple(float(y) for y in x) for x in opt.fit_boundaries])
                if len(gb) != len(bounds) or (len(gb) and not close(np.array(gb), np.array(bounds).reshape(len(gb), 2), rtol=1e-12)):
                    out.fail('fit-boundaries@%s%s' % (tag, mm), 'got %s implied %s for %s' % (gb, bounds, names))
                out.applies('derived-names')
                wd = [x for x in dorder if dsettings[x]]
                if list(opt.derived_names) != wd:
                    out.fail('derived-names@' + tag, 'got %s implied %s' % (list(opt.derived_names), wd))
                # writing the reported values back changes nothing
                out.applies('write-back-is-identity')
                before = current()
                with np.errstate(all='ignore'):
                    cut(out, 'update_model@write-back' + mm, opt.update_model, list(opt.fit_values))
                after = current()
                if not close([after[x] for x in order], [before[x] for x in order], rtol=1e-11):
                    bad = [x for x in order if not close(after[x], before[x], rtol=1e-11)]
                    out.fail('write-back-is-identity@%s%s' % (tag, mm), 'writing fit_values back changed %s: %s -> %s'
                             % (bad, [before[x] for x in bad], [after[x] for x in bad]))
                    for x in bad:               # restore so that the history can go on
                        (m.fittingParameters if x in m.fittingParameters else obs.fittingParameters)[x][3](before[x])
            elif name == 'update' and compiled:
                out.cls('has-update')
                fitted = list(opt.fit_names)
                pri = list(opt.fitting_priors)
                vec = []
                for i, pr in enumerate(pri):
                    x = float(pr.sample(op['u'][i % 14]))
                    if type(pr).__name__ in ('Gaussian', 'LogGaussian') or True:
                        # keep the written value positive and finite
                        val = float(pr.prior(x))
                        if not (1e-12 < val < 1e12):
                            x = 0.0 if pr.priorMode.name == 'LOG' else 1.0
                    vec.append(x)
                before = current()
                # samplers hand over their own float64 array (nestle a row of its live points): the update reads it
                given = np.array(vec, dtype=np.float64)
                with np.errstate(all='ignore'):
                    cut(out, 'update_model', opt.update_model, given)
                after = current()
                out.applies('update-leaves-vector')
                if not np.array_equal(given, np.array(vec, dtype=np.float64)):
                    out.fail('update-leaves-vector', 'the vector handed to update_model was changed from %s to %s' % (vec, given.tolist()))
                else:
                    # ... and writing the same vector again changes nothing
                    with np.errstate(all='ignore'):
                        cut(out, 'update_model', opt.update_model, given)
                    again = current()
                    if any(again[x] != after[x] for x in order):
                        bad = [x for x in order if again[x] != after[x]]
                        out.fail('update-leaves-vector@second-write', 'writing the same vector twice: %s went from %s to %s'
                                 % (bad, [after[x] for x in bad], [again[x] for x in bad]))
                out.applies('update-sets-fitted')
                fitted_plain = [n[4:] if n.startswith('log_') and n[4:] in order and n not in order else n for n in fitted]
                alias_ = {'planet_distance': 'planet_sma', 'planet_sma': 'planet_distance'}
                for i, pn in enumerate(fitted_plain):
                    if pn in alias_ and alias_[pn] in fitted_plain[i + 1:]:
                        continue            # both names of one quantity are fitted: the later one in fitting order wins
                    want = float(pri[i].prior(vec[i]))
                    if not close(after[pn], want, rtol=1e-12):
                        out.fail('update-sets-fitted@%s' % ('mismatch' if mismatch else 'match'),
                                 '%s = %r after update, prior-transformed value %r' % (pn, after[pn], want))
                out.applies('update-leaves-others')
                alias = {'planet_distance': 'planet_sma', 'planet_sma': 'planet_distance'}
                touched = set(fitted_plain) | {alias[x] for x in fitted_plain if x in alias}
                for x in order:
                    if x not in touched and after[x] != before[x]:
                        out.fail('update-leaves-others', '%s changed from %r to %r but is not fitted' % (x, before[x], after[x]))
        except CutError:
            continue
    # ---- history independence ----------------------------------------------------------------------
    if compiled:
        try:
            cut(out, 'compile_params', opt.compile_params)
            W2, m2, obs2 = make_world(w)
            cur = current()
            for x in order:       # same current parameter values
                (m2.fittingParameters if x in m2.fittingParameters else obs2.fittingParameters)[x][3](cur[x])
            fresh = Optimizer('fresh', observed=obs2, model=m2)
            for x in order:
                s = settings[x]
                (fresh.enable_fit if s['fit'] else fresh.disable_fit)(x)
                fresh.set_mode(x, s['mode'])
                fresh.set_boundary(x, list(s['bounds']))
                if s['prior'] is not None:
                    fresh.set_prior(x, make_prior(*s['prior']))
            for x in dorder:
                if dsettings[x]:
                    fresh.enable_derived(x)
            fresh.compile_params()
            out.applies('history-independent')
            a = (list(opt.fit_names), [prior_sig(x) for x in opt.fitting_priors], list(opt.derived_names))
            b = (list(fresh.fit_names), [prior_sig(x) for x in fresh.fitting_priors],
                 [x for x in fresh.derived_names if dsettings.get(x)])
            if a[0] != b[0] or a[1] != b[1]:
                out.fail('history-independent@%s' % ('recompiled' if recompiled_after_change else 'single'),
                         'after the history: %s %s; fresh optimizer with the same settings: %s %s' % (a[0], a[1], b[0], b[1]))
        except CutError:
            pass
        except Exception as e:   # fresh configuration hit a defect already reported above
            out.cls('fresh-config-failed:' + type(e).__name__)
    out.nontrivial = bool(recompiled_after_change and nfit_late >= 2)
    return out
