"""C09 — posterior summaries are the weighted statistics of the stored samples."""
import contextlib
import importlib
import io
import math
import os
import random
import shutil
import tempfile
import numpy as np
from hypothesis import strategies as st

from vlib.runner import Outcome, cut, CutError, close, maxrel
from vlib import synth, doubles, strategies as S
from vlib.props.c05 import overlap_mean, midpoint_widths
from vlib.props import c06

ID = 'C09'
TITLE = 'posterior summaries'
CASES = {'quick': 200, 'thorough': 6400}
SHARDS = {'quick': 1, 'thorough': 16}
RULE = ('Generated: a small retrievable world, 1-4 fitted parameters with drawn priors, 0-3 derived parameters, '
        'an observation, and a posterior sample set of 1-80 points (drawn through the priors so every sample '
        'is a valid atmosphere) with weights from {uniform, Dirichlet-like, geometric tail down to 1e-300, '
        'exact ties, exact zeros}; delivered through the nestle.sample double (a real nestle.Result) or through '
        'a pymultinest double that writes the <prefix>.txt / post_separate.dat files and answers Analyzer.get_stats() '
        '(single- and multi-mode); Optimizer.fit() is run end to end.  Non-trivial = >=10 samples with '
        'non-uniform weights and >=2 fitted parameters; distinct by case hash.'
        ' A third of the cases first complete another fit (other sample set and size) on the same optimizer.')
ASSUMPTIONS = [
    'weighted quantile = linear interpolation of the sorted trace against its cumulative normalised weights; inside a plateau of the cumulative weights (zero weights) any value of the plateau is accepted',
    'MAP: any sample of maximal weight, all parameters from the same sample (nestle); the MAP vector reported by the sampler statistics in fitting order (MultiNest)',
    'PolyChord post-processing is not claimed (its .stats layout is parsed by line number and cannot be vouched for by a double)',
    'random.sample inside sample_parameters is seeded by the harness from the case',
    'stored spectrum compared with an independent model at the MAP on the full native grid and the C05 reference binning, rtol 1e-9',
]
RULE = RULE + ' ' + 'Also: a user-defined clipped derived parameter (python int 0 below a floor, float above) among the derived parameters; cases stratified by sampler.'
REQUIRED = {'zero-coordinate-at-map': 0.03, 'first-fit-broke-off-in-post-processing': 0.02, 'refit-on-same-optimizer': 0.15, 'sampler:nestle': 0.15, 'sampler:multinest': 0.15, 'weights:nonuniform': 0.3, 'has-derived': 0.2}

DERIVED = ['mu', 'logg', 'avg_T', 'T_excess']


def install_excess(m):
    """a user-defined derived parameter on the model, of the common clipped kind: max(T_surface - floor, 0) -- a python int 0
    wherever the temperature is below the floor, a float above it (the floor is the model's temperature as built)"""
    if 'T_excess' in m.derivedParameters:
        return
    floor = float(np.asarray(m.temperatureProfile, dtype=float)[0])

    def t_excess(self):
        if getattr(self, '_verif_fail', False):
            raise RuntimeError('derived parameter not available')          # a user-defined getter that can fail
        return max(float(np.asarray(self.temperatureProfile, dtype=float)[0]) - floor, 0)
    m.add_derived_param('T_excess', 'T_x', t_excess, False)
    m.collect_derived_parameters()



STRATA = {'nestle': 2, 'multinest-single': 1, 'multinest-multi': 1}
STRATA_KEY = 'sampler'


@st.composite
def _case(draw, sampler=None):
    sampler = sampler or draw(st.sampled_from(['nestle', 'multinest-single', 'nestle', 'multinest-multi']))
    family = draw(st.sampled_from(['transmission', 'emission', 'transmission']))
    k = draw(S.ints(1, 4))
    fitted = draw(S.perm(['planet_radius', 'T', 'mol0', 'fill', 'clouds_pressure']))[:k]
    pri = {p: {'kind': draw(st.sampled_from(['Uniform', 'LogUniform', 'Gaussian', 'LogGaussian'])),
               'a': draw(st.floats(0.3, 0.9)), 'b': draw(st.floats(1.1, 2.0)), 'std': draw(st.floats(0.01, 0.05))}
           for p in fitted}
    ns = draw(st.sampled_from([1, 2, 3, 10, 11, 17, 25, 40, 80, 5]))
    wkind = draw(st.sampled_from(['dirichlet', 'ties', 'geometric', 'zeros', 'uniform']))
    u = draw(st.lists(st.lists(st.floats(0.03, 0.97), min_size=4, max_size=4), min_size=ns, max_size=ns))
    wr = draw(st.lists(st.floats(0.01, 1.0), min_size=ns, max_size=ns))
    derived = draw(st.lists(st.sampled_from(DERIVED), max_size=3, unique=True))
    w = draw(S.world(layers=(3, 8), nwn=(24, 32), max_active=2, extras=('SimpleClouds',), temps=('iso',), mags=['mixed']))
    w['extras'] = ['SimpleClouds'] if family == 'transmission' else []
    w['fill'] = ['H2', 'He']
    tiny = draw(st.sampled_from([False, False, False, True]))
    if tiny:
        # a single trace abundance of order 1e-9 fitted in linear space: MAP and median differ by ~1e-9
        fitted = ['mol0']
        pri = {'mol0': dict(pri.get('mol0', {'a': 0.5, 'b': 1.8, 'std': 0.03}), kind='Uniform')}
        w['gases'][0]['logmix'] = -9.0
        w['gases'][0]['logtop'] = None
    return {'tiny': tiny, 'world': w, 'sampler': sampler, 'family': family, 'fitted': list(fitted), 'priors': pri,
            'obs': draw(c06.observation_spec()), 'ns': ns, 'wkind': wkind, 'u': u, 'wr': wr, 'derived': derived,
            'ngauss': 1 + draw(S.ints(0, 1)), 'split': draw(st.floats(0.2, 0.8)),
            'size': draw(st.sampled_from(['heavy', 'light', 'lighter'])), 'refit': draw(st.sampled_from([True, False, True])), 'zero_coord': draw(st.sampled_from([True, False])),
            'first_fit_fails': draw(st.sampled_from([True, False]))}


def strategy(tier, part=None):
    return _case(part)


def weights_for(case):
    ns, wr = case['ns'], np.array(case['wr'], dtype=float)
    k = case['wkind']
    if k == 'uniform':
        w = np.ones(ns)
    elif k == 'dirichlet':
        w = wr.copy()
    elif k == 'geometric':
        w = np.maximum(0.05 ** np.arange(ns), 1e-300) * (0.5 + wr)
    elif k == 'ties':
        w = np.where(wr > 0.5, 1.0, 0.25)
    else:
        w = np.where(wr > 0.6, wr, 0.0)
        if not np.any(w > 0):
            w[0] = 1.0
    return w / w.sum()


def wquantiles(x, w, qs):
    """reference weighted quantiles; for each q an interval [lo, hi] of acceptable values.
    Without ties in x and without zero weights the interval is the single linearly
    interpolated value.  With ties or zero weights the order among equal points is arbitrary
    and the cumulative weights have plateaus: then any value between the first support point
    of the plateau below q and the support point that reaches q is accepted."""
    x = np.asarray(x, dtype=float)
    w = np.asarray(w, dtype=float)
    ys, inv = np.unique(x, return_inverse=True)
    wy = np.zeros(len(ys))
    np.add.at(wy, inv, w)
    C = np.cumsum(wy)
    C = C / C[-1]
    simple = len(ys) == len(x) and np.all(w > 0)
    res = []
    for q in qs:
        k = int(np.searchsorted(C, q, side='left'))          # first support point with C >= q
        k = min(k, len(ys) - 1)
        if k == 0:
            # the first support point already reaches q; if it reaches it EXACTLY (two samples of weight one half and
            # q = 0.5) the cumulative weight stays at q over the zero-weight points that follow: the same plateau rule
            k1 = int(np.searchsorted(C, C[0], side='right')) - 1 if (not simple and C[0] == q) else 0
            res.append((ys[0], ys[k1]))
            continue
        if simple:
            f = (q - C[k - 1]) / (C[k] - C[k - 1])
            v = ys[k - 1] + f * (ys[k] - ys[k - 1])
            res.append((v, v))
        else:
            p = int(np.searchsorted(C, C[k - 1], side='left'))
            k1 = int(np.searchsorted(C, C[k], side='right')) - 1 if C[k] == q else k
            res.append((ys[p], ys[k1]))
    return res


def in_interval(v, iv, scale):
    tol = 1e-9 * scale + 1e-300
    return iv[0] - tol <= v <= iv[1] + tol


class Retrieval:
    """model + observation + optimizer with a generated posterior injected through the sampler double"""

    def __init__(self, out, case, tmpdir):
        from taurex.core import priors as P
        from taurex.optimizer import NestleOptimizer
        self.case = case
        w = case['world']
        self.w = w
        self.W, self.m = cut(out, 'build', c06.build, w, case['family'], case['ngauss'])
        with np.errstate(all='ignore'):
            nominal = cut(out, 'model', self.m.model)
        self.native = np.array(nominal[0], dtype=float, copy=True)
        nspec = np.asarray(nominal[1], dtype=float)
        self.ok = bool(np.all(np.isfinite(nspec)) and not np.all(nspec == 0))
        if not self.ok:
            return
        if 'T_excess' in case.get('derived', []):
            install_excess(self.m)
        self.obs = c06.make_observation(out, case['obs'], self.native, nspec, w)
        sampler = case['sampler']
        if sampler == 'nestle':
            self.opt = cut(out, 'optimizer', NestleOptimizer, observed=self.obs, model=self.m, num_live_points=10,
                           sigma_fraction=0.5)
        else:
            mod = importlib.import_module('taurex.optimizer.multinest')
            self.opt = cut(out, 'optimizer', mod.MultiNestOptimizer, multi_nest_path=tmpdir, observed=self.obs, model=self.m,
                           search_multi_modes=(sampler == 'multinest-multi'), sigma_fraction=0.5)
        roles = [r for r in case['fitted'] if c06.param_name(r, w) in self.m.fittingParameters]
        for p in list(self.m.fittingParameters):
            self.opt.disable_fit(p)
        self.specs = {}
        for r in roles:
            name = c06.param_name(r, w)
            nom = float(self.m[name])
            spec = case['priors'][r]
            if r == 'mol0' and case.get('tiny'):
                kind, kw = 'Uniform', {'bounds': [nom * spec['a'], nom * spec['b']]}
            elif r == 'mol0':
                kind, kw = 'LogUniform', {'bounds': [math.log10(nom * spec['a']), math.log10(min(nom * spec['b'], 0.2))]}
            else:
                kind, kw = c06.make_prior_spec(r, spec, nom)
            self.specs[name] = (kind, kw)
            self.opt.enable_fit(name)
            self.opt.set_prior(name, getattr(P, kind)(**kw))
        self.order = [p for p in self.m.fittingParameters if p in self.specs]
        for d in self.m.derivedParameters:
            (self.opt.enable_derived if d in case['derived'] else self.opt.disable_derived)(d)
        self.derived = [d for d in self.m.derivedParameters if d in case['derived']]
        ns = case['ns']
        self.samples = np.array([[c06.ref_inverse(*self.specs[n], case['u'][i][j % 4]) for j, n in enumerate(self.order)]
                                 for i in range(ns)], dtype=float).reshape(ns, len(self.order))
        self.weights = weights_for(case)
        # a coordinate of the sampled space that is exactly 0.0 is a value like any other (planet_radius = 1 R_J under a
        # log-space prior): put one at the sample of greatest weight when the priors allow it
        if case.get('zero_coord') and 'planet_radius' in self.order and self.specs['planet_radius'][0].startswith('Log'):
            j = self.order.index('planet_radius')
            self.samples[int(np.argmax(self.weights)), j] = 0.0
            out.cls('zero-coordinate-at-map')

    def to_physical(self, x):
        return [(10.0 ** v) if self.specs[n][0].startswith('Log') else v for n, v in zip(self.order, x)]


def deliver(R, tmpdir):
    """the `result` hook of the sampler doubles"""
    import nestle
    case = R.case

    def result(which, cap):
        if which == 'nestle':
            return nestle.Result(samples=R.samples.copy(), weights=R.weights.copy(), logz=-12.5, logzerr=0.3, h=2.0,
                                 niter=len(R.weights), ncall=100, logl=np.zeros(len(R.weights)), logvol=np.zeros(len(R.weights)))
        # MultiNest: write the files the wrapper reads
        base = cap.kwargs['outputfiles_basename']
        ns, nd = R.samples.shape
        data = np.column_stack([R.weights, -2.0 * np.arange(ns), R.samples])
        np.savetxt(base + '.txt', data, fmt='%.18e')
        modes = [np.arange(ns)]
        if case['sampler'] == 'multinest-multi' and ns >= 2:
            cutp = min(max(int(case['split'] * ns), 1), ns - 1)
            modes = [np.arange(0, cutp), np.arange(cutp, ns)]
            if min(R.weights[m_].sum() for m_ in modes) <= 0:      # a mode carries posterior mass by definition
                modes = [np.arange(ns)]
        with open(base + 'post_separate.dat', 'w') as f:
            for mi, idx in enumerate(modes):
                f.write('\n\n')
                for i in idx:
                    f.write(' '.join('%.18e' % v for v in data[i]) + '\n')
        R.modes = modes
        stats = {'global evidence': -12.5, 'global evidence error': 0.3, 'modes': []}
        for mi, idx in enumerate(modes):
            s, wt = R.samples[idx], R.weights[idx]
            stats['modes'].append({
                'index': mi, 'local log-evidence': -13.0 - mi, 'local log-evidence error': 0.2,
                'strictly local log-evidence': -13.0, 'strictly local log-evidence error': 0.2,
                'mean': [float(v) for v in np.average(s, axis=0, weights=wt + 1e-300)],
                'sigma': [1.0] * nd, 'maximum': [float(v) for v in s[0]],
                'maximum a posterior': [float(v) + 0.125 * (mi + 1) * 0 for v in s[int(np.argmax(wt))]]})
        R.mn_stats = stats
        return None
    return result


def check(case):
    out = Outcome()
    sampler = case['sampler']
    out.cls('sampler:' + ('nestle' if sampler == 'nestle' else 'multinest'))
    out.cls('mode:' + sampler)
    tmpdir = tempfile.mkdtemp(prefix='verif_c09_')
    try:
        R = Retrieval(out, case, tmpdir)
        if not R.ok or not R.order:
            out.cls('degenerate-world')
            return out
        nonuni = len(set(np.round(R.weights / R.weights.max(), 12))) > 1
        out.cls('weights:' + ('nonuniform' if nonuni else 'uniform'))
        out.cls('wkind:' + case['wkind'])
        if case.get('tiny'):
            out.cls('tiny-parameter')
        if R.derived:
            out.cls('has-derived')
        from taurex import OutputSize
        size = {'heavy': OutputSize.heavy, 'light': OutputSize.light, 'lighter': OutputSize.lighter}[case['size']]
        random.seed(12345)
        with doubles.sampler_doubles(result=deliver(R, tmpdir)) as (cap, pm):
            class Analyzer:
                def __init__(self, n_params=None, outputfiles_basename=None):
                    pass

                def get_stats(self):
                    return R.mn_stats
            pm.Analyzer = Analyzer
            if case.get('refit') and case['ns'] >= 4:
                # history: the SAME optimizer has already completed a fit on another sample set (other size, other
                # values per index); the solution judged below must describe the second set only
                out.cls('refit-on-same-optimizer')
                keep_s, keep_w = R.samples, R.weights
                k_ = max(2, case['ns'] - 3)
                R.samples, R.weights = keep_s[::-1][:k_].copy(), keep_w[::-1][:k_].copy()
                if R.weights.sum() <= 0:
                    R.weights = np.ones(k_) / k_
                if 'T_excess' in R.derived and case.get('first_fit_fails'):
                    # ... and that first fit broke off in its post-processing (a derived getter raised; the caller caught it)
                    R.m._verif_fail = True
                    try:
                        with contextlib.redirect_stdout(io.StringIO()), np.errstate(all='ignore'):
                            R.opt.fit(size)
                    except Exception:
                        out.cls('first-fit-broke-off-in-post-processing')
                    R.m._verif_fail = False
                else:
                    with contextlib.redirect_stdout(io.StringIO()), np.errstate(all='ignore'):
                        cut(out, 'fit@%s,first-of-two' % sampler, R.opt.fit, size)
                R.samples, R.weights = keep_s, keep_w
                if hasattr(R, 'modes'):
                    del R.modes
            with contextlib.redirect_stdout(io.StringIO()), np.errstate(all='ignore'):
                solution = cut(out, 'fit@' + sampler, R.opt.fit, size)
        fit_names = list(R.opt.fit_names)
        modes = getattr(R, 'modes', [np.arange(case['ns'])])
        W2, m2 = c06.build(case['world'], case['family'], case['ngauss'])      # independent instance
        if 'T_excess' in case.get('derived', []):
            with np.errstate(all='ignore'):
                m2.model()
            install_excess(m2)
        own = np.asarray(R.obs.wavenumberGrid, dtype=float)
        oww = np.asarray(R.obs.binWidths, dtype=float)
        for mi, idx in enumerate(modes):
            key = 'solution%d' % mi
            out.applies('solution-present')
            if key not in solution:
                out.fail('solution-present@' + sampler, '%s missing (have %s)' % (key, list(solution)))
                continue
            sol = solution[key]
            S_, Wt = R.samples[idx], R.weights[idx]
            # ---- traces and weights are the sampler's -----------------------------------------------
            out.applies('samples-unchanged')
            exact = sampler == 'nestle'
            for label, got, want in (('tracedata', sol['tracedata'], S_), ('weights', sol['weights'], Wt),
                                     ('get_samples', R.opt.get_samples(mi), S_), ('get_weights', R.opt.get_weights(mi), Wt)):
                got = np.asarray(got, dtype=float)
                same = np.array_equal(got, want) if exact else (got.shape == want.shape and close(got, want, rtol=1e-15))
                if not same:
                    out.fail('samples-unchanged@%s,%s' % (label, sampler), '%s differs from what the sampler delivered' % label)
            # ---- per-parameter summaries -------------------------------------------------------------
            fp = sol['fit_params']
            map_vec, med_vec = [], []
            for j, name in enumerate(fit_names):
                out.applies('quantiles')
                if name not in fp:
                    out.fail('quantiles@missing', '%s missing from fit_params %s' % (name, list(fp)))
                    continue
                e = fp[name]
                tr = S_[:, j]
                scale = float(np.max(np.abs(tr))) or 1.0
                q16, q50, q84 = wquantiles(tr, Wt, [0.16, 0.5, 0.84])
                v, sm, sp = float(e['value']), float(e['sigma_m']), float(e['sigma_p'])
                if not in_interval(v, q50, scale):
                    out.fail('quantiles@value,%s' % case['wkind'], '%s: value %r, weighted median in %s' % (name, v, q50))
                if not in_interval(v - sm, q16, scale) or not in_interval(v + sp, q84, scale):
                    out.fail('quantiles@errors,%s' % case['wkind'], '%s: value-sigma_m %r (q16 %s) value+sigma_p %r (q84 %s)'
                             % (name, v - sm, q16, v + sp, q84))
                if sm < -1e-9 * scale or sp < -1e-9 * scale or not (tr.min() - 1e-9 * scale <= v <= tr.max() + 1e-9 * scale):
                    out.fail('quantiles@ordering', '%s: q16<=q50<=q84 within the trace range violated' % name)
                if not np.array_equal(np.asarray(e['trace'], dtype=float), tr) and exact:
                    out.fail('quantiles@trace', '%s: stored trace is not the column of the samples' % name)
                out.applies('mean')
                mean_key = 'mean'
                wm = float(np.sum(Wt * tr) / np.sum(Wt))
                if not close(float(e[mean_key]), wm, rtol=1e-9, atol=1e-12 * scale):
                    out.fail('mean@' + sampler, '%s: mean %r, weighted mean %r' % (name, float(e[mean_key]), wm))
                map_vec.append(float(e['map'] if sampler == 'nestle' else e['nest_map']))
                med_vec.append(v)
            if len(map_vec) != len(fit_names):
                continue
            out.applies('map')
            if sampler == 'nestle':
                best = np.where(Wt == Wt.max())[0]
                if not any(np.array_equal(S_[b], np.array(map_vec)) for b in best):
                    out.fail('map@nestle', 'MAP %s is not a sample of greatest weight' % map_vec)
            else:
                want = R.mn_stats['modes'][mi]['maximum a posterior']
                if not close(map_vec, want, rtol=1e-15):
                    out.fail('map@multinest', 'MAP %s, sampler statistics report %s' % (map_vec, want))
            # ---- stored spectrum = model at the MAP, binned ------------------------------------------------
            out.applies('spectrum-at-map')
            for name, val in zip(R.order, R.to_physical(map_vec)):
                m2[name] = val
            with np.errstate(all='ignore'):
                g, sp_, tau_, _ = m2.model()
            g, sp_ = np.asarray(g, dtype=float), np.asarray(sp_, dtype=float)
            spec = sol['Spectra']
            if not close(np.asarray(spec['native_spectrum'], dtype=float), sp_, rtol=1e-9, atol=1e-300) or \
                    not np.array_equal(np.asarray(spec['native_wngrid'], dtype=float), g):
                out.fail('spectrum-at-map@native,' + sampler, 'stored native spectrum is not the model at the MAP (max rel %.2e)'
                         % maxrel(spec['native_spectrum'], sp_))
            e_, nw = midpoint_widths(g)
            want_b = []
            for i in range(len(own)):
                vv, _, tot, _, _ = overlap_mean(g - nw / 2, g + nw / 2, sp_, own[i] - oww[i] / 2, own[i] + oww[i] / 2)
                want_b.append(float(vv) if tot > 0 else 0.0)
            if not close(np.asarray(spec['binned_spectrum'], dtype=float), want_b, rtol=1e-9, atol=1e-300):
                out.fail('spectrum-at-map@binned,' + sampler, 'stored binned spectrum is not the MAP model binned to the observation')
            # ---- profiles of the median solution ----------------------------------------------------------------
            out.applies('profiles-at-median')
            for name, val in zip(R.order, R.to_physical(med_vec)):
                m2[name] = val
            with np.errstate(all='ignore'):
                m2.model()
            prof = sol['Profiles']
            for k, ref_v in (('temp_profile', m2.temperatureProfile), ('pressure_profile', m2.pressureProfile),
                             ('density_profile', m2.densityProfile), ('active_mix_profile', m2.chemistry.activeGasMixProfile),
                             ('altitude_profile', m2.altitudeProfile)):
                if k not in prof or not close(np.asarray(prof[k], dtype=float), np.asarray(ref_v, dtype=float), rtol=1e-9, atol=1e-300):
                    out.fail('profiles-at-median@%s' % k, 'stored %s is not that of the median solution' % k)
            # ---- derived parameters ----------------------------------------------------------------------------------
            if R.derived:
                out.applies('derived-traces')
                dp = sol.get('derived_params', {})
                recomputed = {d: [] for d in R.derived}
                for i in range(len(S_)):
                    for name, val in zip(R.order, R.to_physical(S_[i])):
                        m2[name] = val
                    m2.initialize_profiles()
                    for d in R.derived:
                        recomputed[d].append(float(m2.derivedParameters[d][2]()))
                for d in R.derived:
                    e = dp.get('%s_derived' % d)
                    if e is None:
                        out.fail('derived-traces@missing', '%s_derived missing from %s' % (d, list(dp)))
                        continue
                    tr = np.asarray(e['trace'], dtype=float)
                    want = np.array(recomputed[d])
                    if tr.shape != want.shape:
                        out.fail('derived-traces@length', '%s: %d entries for %d samples' % (d, tr.size, want.size))
                        continue
                    if not close(tr, want, rtol=1e-9, atol=1e-300):
                        out.fail('derived-traces@order', '%s: entry i is not the derived value at sample i' % d)
                        continue
                    scale = float(np.max(np.abs(want))) or 1.0
                    q16, q50, q84 = wquantiles(want, Wt, [0.16, 0.5, 0.84])
                    v = float(e['value'])
                    if not in_interval(v, q50, scale) or not in_interval(v - float(e['sigma_m']), q16, scale) or \
                            not in_interval(v + float(e['sigma_p']), q84, scale):
                        out.fail('derived-traces@quantiles', '%s: summaries do not follow the quantile rule' % d)
        out.nontrivial = bool(case['ns'] >= 10 and nonuni and len(R.order) >= 2)
    except CutError:
        pass
    finally:
        shutil.rmtree(tmpdir, ignore_errors=True)
    return out
