"""C18 — parallel post-processing is invariant to how samples are split across ranks."""
import math
import numpy as np
from hypothesis import strategies as st
from vlib import strategies as S

from vlib.runner import Outcome, cut, CutError, close
from vlib import doubles

ID = 'C18'
TITLE = 'rank-split invariance'
CASES = {'quick': 900, 'thorough': 96000}
SHARDS = {'quick': 1, 'thorough': 16}
RULE = ('Generated (a): 0-40 samples (scalars, vectors of 3, 2x2 arrays; values offset+spread*x), positive '
        'weights from {uniform, arbitrary in 1e-3..1e3, geometric tail down to 1e-300, exact ties}, 1-8 '
        'simulated ranks and an ARBITRARY assignment of samples to ranks (so empty and single-sample ranks '
        'occur by construction); each rank runs OnlineVariance.update on its samples in a thread and '
        'parallelVariance() through a barrier-based mpi4py double whose collectives pickle every exchanged '
        'value.  (b): Optimizer.generate_profiles / compute_derived_trace on N simulated ranks (see '
        'DESIGN.md).  Non-trivial = >=2 ranks, at least one rank holding exactly one sample or none, '
        'non-uniform weights, >=2 samples in total; distinct by case hash.'
        ' Part (a) also queries one accumulator part-way (streaming) before feeding it the remaining samples.')
ASSUMPTIONS = [
    'mpi4py is absent: the communicator double implements the documented semantics of the lower-case '
    'object collectives (pickle round trip; SUM on lists = concatenation in rank order)',
    'tolerance |got-ref| <= 1e-9*ref + 1e-11*max|x-mean|^2-scale (1e-6 relative when the weight ratio exceeds 1e12)',
    'thread interleaving cannot change results (collectives are deterministic); what varies is the split',
]
RULE = RULE + ' ' + 'Also: a producer that overwrites one work array in place for every sample; the rounding floor of streamed spectrum variances scales with the largest sampled value; cases stratified by part.'
REQUIRED = {'producer-reuses-buffer': 0.08, 'ranks>=2': 0.5, 'has-single-sample-rank': 0.15, 'has-empty-rank': 0.15, 'weights:nonuniform': 0.3,
            'part:pipeline': 0.1, 'part:variance': 0.4}


@st.composite
def _vcase(draw):
    shape = draw(st.sampled_from(['scalar', 'scalar', 'vec', 'mat']))
    k = {'scalar': 1, 'vec': 3, 'mat': 4}[shape]
    n = draw(S.ints(0, 40))
    nr = draw(S.ints(1, 8))
    vals = draw(st.lists(st.lists(st.floats(-1.0, 1.0), min_size=k, max_size=k), min_size=n, max_size=n))
    wkind = draw(st.sampled_from(['uniform', 'arbitrary', 'geometric', 'ties', 'tiny']))
    if wkind == 'uniform':
        w = [1.0] * n
    elif wkind == 'arbitrary':
        w = draw(st.lists(st.floats(1e-3, 1e3), min_size=n, max_size=n))
    elif wkind == 'tiny':
        w = [1e-300 * x for x in draw(st.lists(st.sampled_from([1.0, 1.0, 2.0]), min_size=n, max_size=n))]
    elif wkind == 'geometric':
        r = draw(st.floats(1e-30, 0.9))
        w = [max(r ** i, 1e-300) for i in range(n)]
    else:
        w = draw(st.lists(st.sampled_from([0.5, 0.5, 2.0, 1e-300]), min_size=n, max_size=n))
    assign = draw(st.lists(S.ints(0, nr - 1), min_size=n, max_size=n))
    return {'shape': shape, 'vals': vals, 'w': w, 'wkind': wkind, 'nranks': nr, 'assign': assign,
            'offset': draw(st.sampled_from([0.0, 1.0, 1e3, -1e6])), 'spread': draw(st.sampled_from([1.0, 1e-3, 1e4])),
            # every sample handed over in ONE work array that the producer overwrites in place (a model component with a
            # preallocated buffer): the accumulator reads the value, it does not keep the array
            'reuse_buffer': draw(S.pick([False, True, False, True]))}


@st.composite
def _pcase(draw):
    from vlib.props import c09
    c = draw(c09._case())
    c['sampler'] = 'nestle'
    c['nranks'] = draw(st.sampled_from([2, 3, 4, 5, 7]))
    c['ns'] = len(c['u'])
    if not c['derived']:
        c['derived'] = ['mu']
    c['part'] = 'pipeline'
    c['refit'] = False
    c['condensates'] = draw(st.booleans())
    c['broken_first'] = draw(S.pick([False, True, False, True]))
    return c


STRATA = {'variance': 3, 'pipeline': 1}


def strategy(tier, part=None):
    if part == 'variance':
        return _vcase().map(lambda c: dict(c, part='variance'))
    if part == 'pipeline':
        return _pcase()
    return st.one_of(_vcase().map(lambda c: dict(c, part='variance')), _vcase().map(lambda c: dict(c, part='variance')),
                     _vcase().map(lambda c: dict(c, part='variance')), _pcase())


def check(case):
    out = Outcome()
    out.cls('part:' + case.get('part', 'variance'))
    if case.get('part') == 'pipeline':
        return check_pipeline(case, out)
    return check_variance(case, out)


def check_pipeline(case, out):
    """Optimizer.generate_profiles / compute_derived_trace on N simulated ranks (one model and optimizer
    instance per rank) against the single-process run of the same posterior"""
    import contextlib
    import io
    import random
    import shutil
    import tempfile
    from vlib.props import c09
    tmpdir = tempfile.mkdtemp(prefix='verif_c18_')
    nr = case['nranks']
    try:
        Rs = []
        for r in range(nr + 1):                      # instance 0 is the single-process reference
            R = c09.Retrieval(out, case, tmpdir)
            if not R.ok or not R.order:
                out.cls('degenerate-world')
                return out
            if case.get('condensates'):
                # a chemistry that reports a condensate (no bundled chemistry does): its standard deviation is pooled like
                # every other profile's
                R.m.chemistry.__class__ = condensate_chemistry()
            cut(out, 'compile_params', R.opt.compile_params)
            with doubles.sampler_doubles(result=c09.deliver(R, tmpdir)):
                with contextlib.redirect_stdout(io.StringIO()), np.errstate(all='ignore'):
                    cut(out, 'compute_fit', R.opt.compute_fit)
            Rs.append(R)
        wts = Rs[0].weights
        ns = len(wts)
        out.cls('ranks>=2')
        sizes = [len(range(r, ns, nr)) for r in range(nr)]
        if any(s == 1 for s in sizes):
            out.cls('has-single-sample-rank')
        if any(s == 0 for s in sizes):
            out.cls('has-empty-rank')
        nonuni = len(set(np.round(wts / wts.max(), 12))) > 1
        ties = len(set(wts.tolist())) < ns
        out.cls('weights:' + ('nonuniform' if nonuni else 'uniform'))
        out.cls('pipeline-weights:' + case['wkind'])
        grid = np.asarray(Rs[0].obs.wavenumberGrid)

        broken_first = bool(case.get('broken_first'))
        if broken_first:
            out.cls('post-processing-broke-off-first')

        def work(R):
            if broken_first:
                # a first post-processing pass that breaks off at its second sample (an unphysical posterior sample: the
                # forward model raises, the caller catches it), then the pass proper on the same model and optimizer
                # (the broken pass is made on the model directly, with a sample source that fails after its first sample: no
                # exchange between ranks happens before the failure, so every rank breaks off alike)
                from taurex.exceptions import InvalidModelException

                def failing_samples():
                    yield 1.0
                    raise InvalidModelException('unphysical sample')
                try:
                    with np.errstate(all='ignore'):
                        R.m.compute_error(failing_samples, wngrid=grid, binner=getattr(R.opt, '_binner', None))
                except InvalidModelException:
                    pass
            with np.errstate(all='ignore'):
                prof, spec = R.opt.generate_profiles(0, grid)
                der = R.opt.compute_derived_trace(0)
            return prof, spec, der
        random.seed(4242)
        # which samples the random sigma_fraction sub-sample holds (recorded from the single-process run)
        drawn = []
        orig_sp = Rs[0].opt.sample_parameters

        def recording(sol):
            for x, w_ in orig_sp(sol):
                drawn.append(float(w_))
                yield x, w_
        Rs[0].opt.sample_parameters = recording
        # the largest spectrum value any sampled point produces (sampled temperatures move emission spectra by many
        # orders of magnitude): the rounding floor of a streamed variance is eps x that magnitude squared, whatever the
        # magnitude of the best-fit spectrum
        seen_max = [0.0]
        orig_model = Rs[0].m.model

        cond_seen = []

        def recording_model(*a, **k):
            r_ = orig_model(*a, **k)
            with np.errstate(all='ignore'):
                v_ = np.asarray(r_[1], dtype=float)
                if v_.size and np.any(np.isfinite(v_)):
                    seen_max[0] = max(seen_max[0], float(np.nanmax(np.abs(v_[np.isfinite(v_)]))))
                if case.get('condensates'):
                    cond_seen.append(np.array(Rs[0].m.chemistry.condensateMixProfile, dtype=float, copy=True))
            return r_
        Rs[0].m.model = recording_model
        single = cut(out, 'single-process', work, Rs[0])
        Rs[0].m.model = orig_model
        Rs[0].opt.sample_parameters = orig_sp
        massless = bool(drawn) and max(drawn) < 1e-290
        # every sample of the requested sub-sample (the documented fraction of the stored samples) is processed, each once --
        # whatever its weight
        out.applies('sample-count')
        want_n = int(len(wts) * 0.5)
        if len(drawn) != want_n:
            out.fail('sample-count@%s' % case['wkind'], '%d of the %d samples of the sub-sample were processed' % (len(drawn), want_n))
        # the condensate profile's standard deviation against the two-pass weighted value of what was evaluated
        if case.get('condensates') and not massless and not broken_first and len(cond_seen) == len(drawn) >= 2 and 'condensate_profile_std' in single[0]:
            wv = np.array(drawn, dtype=float)
            xs_ = np.array(cond_seen, dtype=float)
            mean_ = np.tensordot(wv, xs_, axes=(0, 0)) / wv.sum()
            var_ = np.tensordot(wv, (xs_ - mean_) ** 2, axes=(0, 0)) / wv.sum()
            got_ = np.asarray(single[0]['condensate_profile_std'], dtype=float)
            out.applies('condensate-std-two-pass')
            pos_ = [x for x in drawn if x > 1e-290]
            rt_ = 1e-5 if (pos_ and max(pos_) / min(pos_) > 1e6) else 1e-7
            if got_.shape != var_.shape or not close(got_ ** 2, var_, rtol=rt_, atol=1e-12 * float(np.max(np.abs(xs_))) ** 2):
                out.fail('condensate-std-two-pass', 'condensate std %s, two-pass weighted value %s' % (got_.ravel()[:2], np.sqrt(var_).ravel()[:2]))
        random.seed(4242)      # only rank 0 draws the sub-sample (and broadcasts it)
        with doubles.simulated_mpi(nr) as run:
            res = cut(out, 'ranks', run, lambda r: work(Rs[r + 1]))
        tag = '%s%s' % (case['wkind'], ',ties' if ties else '')

        def same(a, b, scale=None):
            a, b = np.asarray(a, dtype=float), np.asarray(b, dtype=float)
            if a.shape != b.shape:
                return False
            if scale is not None:
                # a variance that is zero up to rounding may come out slightly negative, its root NaN:
                # a NaN on one side is accepted against a variance within the rounding floor on the other
                floor = 1e-12 * scale * scale
                one = np.isnan(a) ^ np.isnan(b)
                other = np.where(np.isnan(a), b, a)
                if np.any(one & ~(other * other <= floor)):
                    return False
                a = np.where(one, 0.0, a)
                b = np.where(one, 0.0, b)
            if not np.array_equal(np.isnan(a), np.isnan(b)):
                return False
            a, b = np.nan_to_num(a, nan=-1.0), np.nan_to_num(b, nan=-1.0)
            if scale is None:
                return close(a, b, rtol=1e-9, atol=1e-300)
            # standard deviations: compare variances; a variance carries an absolute rounding
            # error of order eps * (magnitude of the averaged quantity)^2
            # a one-pass weighted variance loses digits in proportion to the spread of the weights (the same rule as in
            # part (a)): 1e-8 up to a ratio of 1e6, 1e-6 beyond
            pos = [x for x in drawn if x > 1e-290]
            wide = bool(pos) and max(pos) / min(pos) > 1e6
            return close(a * a, b * b, rtol=1e-6 if wide else 1e-8, atol=1e-12 * scale * scale)
        with np.errstate(all='ignore'):
            nominal = Rs[0].m.model()
        if case.get('condensates'):
            out.cls('condensate-chemistry')
        scales = {'temp_profile_std': float(np.max(Rs[0].m.temperatureProfile)) * 2, 'active_mix_profile_std': 1.0,
                  'condensate_profile_std': 1e-8,
                  'inactive_mix_profile_std': 1.0, 'native_std': max(float(np.max(np.abs(nominal[1]))), seen_max[0]) * 10,
                  'binned_std': max(float(np.max(np.abs(nominal[1]))), seen_max[0]) * 10}
        if massless:
            # every sub-sampled point has zero posterior weight (carried as 1e-300): the weighted sums of squares are
            # denormal numbers (1e-300 x spread^2) with few significant bits, in any evaluation order -- nothing to compare
            out.cls('subsample-without-mass')
        for r in range(nr):
            prof, spec, der = res[r]
            if not massless:
                out.applies('pipeline-std')
            for k in ([] if massless else single[0]):
                if k not in prof or not same(prof[k], single[0][k], scales.get(k, 1.0)):
                    out.fail('pipeline-std@profiles,%s' % tag, 'rank %d of %d: %s differs from the single-process value' % (r, nr, k))
                    break
            for k in ([] if massless else single[1]):
                if k not in spec or not same(spec[k], single[1][k], scales.get(k, 1.0)):
                    a_, b_ = np.asarray(spec.get(k), dtype=float), np.asarray(single[1][k], dtype=float)
                    i_ = int(np.nanargmax(np.abs(a_ * a_ - b_ * b_))) if a_.shape == b_.shape and a_.size else 0
                    out.fail('pipeline-std@spectra,%s' % tag, 'rank %d of %d: %s differs from the single-process value (e.g. %r vs %r; scale %r)'
                             % (r, nr, k, a_.ravel()[i_] if a_.size else None, b_.ravel()[i_] if b_.size else None, scales.get(k, 1.0)))
                    break
            out.applies('pipeline-derived')
            for k in (single[2] or {}):
                e, e0 = der[k], single[2][k]
                if not same(e['trace'], e0['trace']):
                    out.fail('pipeline-derived@trace-order,%s' % tag, 'rank %d of %d: %s trace is not in sample order' % (r, nr, k))
                    break
                if not same([e['value'], e['sigma_m'], e['sigma_p'], e['mean']], [e0['value'], e0['sigma_m'], e0['sigma_p'], e0['mean']]):
                    out.fail('pipeline-derived@summaries,%s' % tag, 'rank %d of %d: %s summaries differ' % (r, nr, k))
                    break
        out.nontrivial = bool(nonuni and ns >= 2)
    except CutError:
        pass
    finally:
        shutil.rmtree(tmpdir, ignore_errors=True)
    return out


_COND = []


def condensate_chemistry():
    if _COND:
        return _COND[0]
    from taurex.data.profiles.chemistry import TaurexChemistry

    class CondensateChemistry(TaurexChemistry):
        @property
        def condensates(self):
            return ['Cloudium']

        def initialize_chemistry(self, nlayers=100, temperature_profile=None, pressure_profile=None, altitude_profile=None):
            self._verif_T = np.array(temperature_profile, dtype=float, copy=True)
            return super().initialize_chemistry(nlayers, temperature_profile, pressure_profile, altitude_profile)

        @property
        def condensateMixProfile(self):
            return (1e-9 * self._verif_T / 1000.0 * (1.0 + 1e3 * np.asarray(self.mixProfile)[-1]))[None, :]
    _COND.append(CondensateChemistry)
    return CondensateChemistry


def two_pass(xs, ws):
    """weighted mean and population variance, two passes, python floats / numpy arrays."""
    tot = sum(ws)
    mean = sum(w * x for w, x in zip(ws, xs)) / tot
    var = sum(w * (x - mean) ** 2 for w, x in zip(ws, xs)) / tot
    return mean, var


def check_variance(case, out):
    from taurex.util.math import OnlineVariance
    shape = case['shape']
    off, sp = case['offset'], case['spread']

    def mk(v):
        a = off + sp * np.array(v, dtype=float)
        if shape == 'scalar':
            return float(a[0])
        if shape == 'vec':
            return a
        return a.reshape(2, 2)
    xs = [mk(v) for v in case['vals']]
    ws = [float(w) for w in case['w']]
    n = len(xs)
    nr = case['nranks']
    assign = case['assign']
    per = [[i for i in range(n) if assign[i] == r] for r in range(nr)]
    sizes = [len(p) for p in per]
    out.cls('ranks>=2' if nr >= 2 else 'ranks=1')
    out.cls('shape:' + shape)
    if any(s == 1 for s in sizes):
        out.cls('has-single-sample-rank')
    if any(s == 0 for s in sizes):
        out.cls('has-empty-rank')
    nonuni = len(set(ws)) > 1
    out.cls('weights:' + ('nonuniform' if nonuni else 'uniform'))
    out.cls('wkind:' + case['wkind'])

    reuse = bool(case.get('reuse_buffer')) and shape != 'scalar'
    if reuse:
        out.cls('producer-reuses-buffer')

    def rank_body(r):
        ov = OnlineVariance()
        buf = None
        for i in per[r]:
            if reuse:
                if buf is None:
                    buf = np.array(xs[i], dtype=float, copy=True)
                else:
                    buf[...] = xs[i]
                ov.update(buf, ws[i])
            else:
                ov.update(xs[i], ws[i])
        return ov.parallelVariance()

    try:
        with doubles.simulated_mpi(nr) as run:
            with np.errstate(all='ignore'):
                res = cut(out, 'parallel-variance', run, rank_body)
        # single-process run of the same samples
        ov = OnlineVariance()
        for i in range(n):
            ov.update(xs[i], ws[i])
        with np.errstate(all='ignore'):
            single = cut(out, 'single-variance', ov.parallelVariance)
        # streaming use of ONE accumulator: asked for the variance part-way, then fed the rest -- the interim answer is
        # the variance of what was seen so far and asking must not disturb what comes after
        if n >= 4:
            out.applies('streaming')
            k_ = n // 2
            ov2 = OnlineVariance()
            for i in range(k_):
                ov2.update(xs[i], ws[i])
            with np.errstate(all='ignore'):
                mid = cut(out, 'single-variance', ov2.parallelVariance)
            for i in range(k_, n):
                ov2.update(xs[i], ws[i])
            with np.errstate(all='ignore'):
                fin = cut(out, 'single-variance', ov2.parallelVariance)
            mid_ref = np.asarray(two_pass(xs[:k_], ws[:k_])[1], dtype=float)
            stream = (np.asarray(mid, dtype=float), mid_ref, np.asarray(fin, dtype=float), np.array(ov2.mean, dtype=float, copy=True))
        else:
            stream = None
    except CutError:
        return out

    tag = 'single-sample-rank' if any(s == 1 for s in sizes) else ('empty-rank' if any(s == 0 for s in sizes) else 'all>=2')
    if n < 2:
        out.applies('nan-below-two-samples')
        for r, v in enumerate(res):
            if not (np.ndim(v) == 0 and v != v):
                out.fail('nan-below-two-samples', 'rank %d returned %r for %d samples' % (r, v, n))
        return out
    mean, var = two_pass(xs, ws)
    var = np.asarray(var, dtype=float)
    scale = float(np.max([np.max(np.abs(x - mean)) for x in xs])) ** 2
    ratio = max(ws) / min(ws)
    rtol = 1e-9 if ratio <= 1e12 else 1e-6
    atol = 1e-11 * scale + 1e-300
    # conditioning: values near `off` with spread sp lose (off/sp)^2 * eps in any one-pass scheme
    atol += 64 * 2.3e-16 * (abs(off) + abs(sp)) ** 2 if scale > 0 else 0.0
    if scale == 0:
        # identical values, unequal weights: the pooled mean carries a rounding error of eps*|x|, its square is the floor
        atol += 64 * (2.3e-16 * float(np.max([np.max(np.abs(x)) for x in xs]))) ** 2
    out.applies('single==two-pass')
    if not close(single, var, rtol=rtol, atol=atol):
        out.fail('single==two-pass', 'single-process %r two-pass %r' % (single, var))
    out.applies('ranks==two-pass')
    for r, v in enumerate(res):
        v = np.asarray(v, dtype=float)
        if v.shape != var.shape or not close(v, var, rtol=rtol, atol=atol):
            out.fail('ranks==two-pass@' + tag,
                     'rank %d of %d (sizes %s) got %r want %r' % (r, nr, sizes, v, var))
            break
    if stream is not None:
        mid, mid_ref, fin, mean_after = stream
        if k_ >= 2 and (mid.shape != mid_ref.shape or not close(mid, mid_ref, rtol=rtol, atol=atol)):
            out.fail('streaming@interim', 'variance of the first %d samples: got %r want %r' % (k_, mid, mid_ref))
        if fin.shape != var.shape or not close(fin, var, rtol=rtol, atol=atol):
            out.fail('streaming@after-interim-query', 'after an interim query the final variance is %r, two-pass %r' % (fin, var))
        if not close(mean_after, np.asarray(mean, dtype=float), rtol=1e-9, atol=1e-9 * (abs(off) + abs(sp))):
            out.fail('streaming@mean', 'running mean after the queries %r, weighted mean %r' % (mean_after, mean))
    out.applies('ranks-agree')
    for r in range(1, nr):
        if not np.array_equal(np.asarray(res[r]), np.asarray(res[0]), equal_nan=True):
            out.fail('ranks-agree', 'rank %d differs from rank 0' % r)
            break
    out.nontrivial = bool(nr >= 2 and (any(s <= 1 for s in sizes)) and nonuni)
    return out
