"""C10 — atmospheric composition is a valid mixture for every input."""
import math
import re
import numpy as np
from hypothesis import strategies as st
from vlib import strategies as S

from vlib.runner import Outcome, cut, CutError, close, maxrel
from vlib import synth

ID = 'C10'
TITLE = 'valid mixture'
CASES = {'quick': 1500, 'thorough': 160000}
SHARDS = {'quick': 1, 'thorough': 16}
RULE = ('Generated: 2-60 layers (deliberately not multiples of ten), pressure grid, temperature profile, a fill '
        'list of 1-4 distinct gases with positive ratios, 0-5 distinct trace gases each Constant / TwoLayer / '
        'TwoPoint / Array / Power with drawn controls; all trace controls are rescaled by one factor so that the '
        'peak total lands in a drawn class: valid (<1), boundary (within 1e-12 of 1) or invalid (>1); a drawn '
        'subset of all gases gets opacity data, registered as cross-sections or as k-tables.  Non-trivial = '
        '>=2 trace gases of different profile types and >=2 fill gases; distinct by case hash.')
ASSUMPTIONS = [
    'atomic weights are read from taurex.util.util.mass (data); the formula parser and the sum are independent; AMU = 1.66053906892e-27 kg typed in',
    'boundary class: either acceptance or rejection is fine; if accepted every ratio must be >= -1e-12',
    'two-layer smoothing window is given in percent of the layer count (0-100)',
    'column sums rtol 1e-12; profile-range clauses rtol 1e-9 (log-space moving average)',
]
RULE = RULE + ' ' + 'Also: fill ratios down to 1e-17, bracketed formulas ((), [], {} with counts, nested), the pressure grid as whole-number pascals in an integer array.'
REQUIRED = {'single-fill-with-ratio': 0.05, 'exact-unity': 0.2, 'deactivated-molecule': 0.1, 'class:valid': 0.3, 'class:invalid': 0.1, 'class:boundary': 0.03, 'type:twolayer': 0.1,
            'type:power': 0.1, 'mode:ktables': 0.07, 'fill>=3': 0.1, 'tiny-fill-ratio': 0.05, 'pressure-grid:integer-array': 0.05, 'rejected-point-first': 0.08}
# coverage-guided extra (thorough tier): pure-Python taurex modules on this property's path, instrumented by atheris
FUZZ = {'include': ['taurex.data.profiles.chemistry', 'taurex.util.util'], 'runs': 20000, 'workers': 4}

AMU = 1.66053906892e-27
IUPAC = {'H': 1.008, 'He': 4.002602, 'C': 12.011, 'N': 14.007, 'O': 15.999, 'Na': 22.98977, 'K': 39.0983, 'Ti': 47.867, 'V': 50.9415,
         'S': 32.06, 'Ar': 39.948, 'Fe': 55.845, 'Ca': 40.078, 'Al': 26.98154, 'Mg': 24.305, 'Si': 28.085}
FILL = ['H2', 'He', 'N2', 'Ar', 'CO2']
TRACE = ['H2O', 'C10H8', 'CH4', 'CO', 'NH3', 'C4H10', 'HCN', 'C2H2', 'SO2', 'TiO', 'VO', 'Na', 'K', 'O2', 'NO', 'H2S', 'C12H26',
         'Ca(OH)2', 'Al2(SO4)3', '(CH3)2CO', 'Fe(CO)5', 'Ca(Al(OH)4)2', 'Mg[OH]2', 'C6H5(CH3)12', 'Na(OH)', 'H{CN}']
TYPES = ['twolayer', 'constant', 'power', 'twopoint', 'array']


@st.composite
def _gas(draw, mol):
    t = draw(st.sampled_from(TYPES))
    g = {'mol': mol, 'type': t}
    lm = st.floats(-12.0, -1.0)
    if t == 'constant':
        g['mix'] = draw(lm)
    elif t == 'twolayer':
        g['surface'], g['top'] = draw(lm), draw(lm)
        g['pfrac'] = draw(st.floats(-0.2, 1.2))
        g['smooth'] = draw(st.sampled_from([10, 0, 1, 5, 20, 33, 50, 100, 7.5]))
    elif t == 'twopoint':
        g['surface'], g['top'] = draw(lm), draw(lm)
    elif t == 'array':
        k = draw(S.ints(1, 6))
        g['values'] = draw(st.lists(lm, min_size=k, max_size=k))
    else:
        g['surface'] = draw(lm)
        g['alpha'] = draw(st.floats(-2.0, 2.0))
        g['beta'] = draw(st.floats(-3e4, 3e4))
        g['gamma'] = draw(st.floats(-5.0, 15.0))
    return g


@st.composite
def _case(draw):
    cls = draw(st.sampled_from(['valid', 'invalid', 'valid', 'boundary', 'valid']))
    nl = draw(st.sampled_from([2, 3, 5, 7, 10, 11, 13, 17, 23, 30, 37, 41, 53, 60, 4, 6, 9]))
    nfill = draw(S.ints(1, 4))
    fill = draw(S.perm(FILL))[:nfill]
    # ordinary ratios, and now and then one of trace size (a fill gas that is nearly absent): the ratio to the main gas is still exact
    ratios = [draw(st.floats(1e-3, 2.0)) if draw(S.ints(0, 3)) else 10.0 ** draw(st.floats(-17.0, -3.0)) for _ in range(nfill - 1)]
    ntr = draw(S.ints(0, 5))
    mols = draw(S.perm(TRACE))[:ntr]
    traces = [draw(_gas(m)) for m in mols]
    ktab = draw(st.sampled_from([False, True, False]))
    have = draw(st.lists(st.booleans(), min_size=nfill + ntr, max_size=nfill + ntr))
    return {'class': cls, 'nlayers': nl, 'fill': list(fill), 'ratios': ratios, 'traces': traces,
            'target': draw(st.floats(0.0, 1.0)), 'ktables': ktab, 'have': have,
            'lpmax': draw(st.floats(3.0, 8.0)), 'decades': draw(st.floats(1.0, 12.0)),
            'P_form': draw(st.sampled_from(['float', 'int', 'float', 'int'])),
            'rejected_first': draw(S.pick([True, False, True])),
            'T': draw(st.lists(st.floats(100.0, 3000.0), min_size=2, max_size=4)),
            'exact_unity': draw(st.sampled_from([0, 1, 0, 2, 3, 0, 4])),
            'single_ratio': draw(st.sampled_from(['default', None, 0.4, 'default'])),
            'deactivate': draw(st.sampled_from([[], [], [0], [1, 2]]))}


def strategy(tier):
    return _case()


def formula_mass(mol, table):
    """mass of a formula by recursive descent: element [count] | (group) [count], any of () [] {} as brackets;
    e.g. C2H2 -> 2*C + 2*H, Ca(OH)2 -> Ca + 2*(O + H)"""
    close_of = {'(': ')', '[': ']', '{': '}'}

    def count(i):
        j = i
        while j < len(mol) and mol[j].isdigit():
            j += 1
        return (int(mol[i:j]) if j > i else 1), j

    def group(i, closer):
        total = 0.0
        while i < len(mol):
            ch = mol[i]
            if ch == closer:
                return total, i + 1
            if ch in close_of:
                sub, i = group(i + 1, close_of[ch])
                n, i = count(i)
                total += sub * n
                continue
            m = re.match(r'[A-Z][a-z]?', mol[i:])
            if not m:
                raise ValueError(mol)
            n, i2 = count(i + m.end())
            total += table[m.group(0)] * n
            i = i2
        if closer is not None:
            raise ValueError(mol)
        return total, i
    return group(0, None)[0]


def make_gas(g, f, P):
    """gas object with every abundance control scaled by f"""
    from taurex.data.profiles.chemistry import ConstantGas, TwoLayerGas, PowerGas
    from taurex.data.profiles.chemistry.gas.twopointgas import TwoPointGas
    from taurex.data.profiles.chemistry.gas.arraygas import ArrayGas
    t = g['type']
    if t == 'constant':
        return ConstantGas(g['mol'], mix_ratio=f * 10.0 ** g['mix']), [f * 10.0 ** g['mix']]
    if t == 'twolayer':
        lo, hi = math.log10(P[-1]), math.log10(P[0])
        pp = 10.0 ** (lo + g['pfrac'] * (hi - lo))
        s, tp = f * 10.0 ** g['surface'], f * 10.0 ** g['top']
        return TwoLayerGas(g['mol'], mix_ratio_surface=s, mix_ratio_top=tp, mix_ratio_P=pp,
                           mix_ratio_smoothing=g['smooth']), [s, tp]
    if t == 'twopoint':
        s, tp = f * 10.0 ** g['surface'], f * 10.0 ** g['top']
        return TwoPointGas(g['mol'], mix_ratio_surface=s, mix_ratio_top=tp), [s, tp]
    if t == 'array':
        v = [f * 10.0 ** x for x in g['values']]
        return ArrayGas(g['mol'], mix_ratio_array=v), v
    s = f * 10.0 ** g['surface']
    return PowerGas(g['mol'], profile_type='custom', mix_ratio_surface=s, alpha=g['alpha'], beta=g['beta'],
                    gamma=g['gamma'] - math.log10(f)), [s]


def check(case):
    from taurex.cache import OpacityCache, GlobalCache
    from taurex.cache.ktablecache import KTableCache
    from taurex.data.profiles.chemistry import TaurexChemistry
    from taurex.exceptions import InvalidModelException
    from taurex.util.util import mass as MASS
    out = Outcome()
    nl = case['nlayers']
    levels = np.logspace(case['lpmax'], case['lpmax'] - case['decades'], nl + 1)
    P = np.sqrt(levels[:-1] * levels[1:])
    # the pressure grid as whole-number pascals in an integer array (an array profile typed in as 10**6, ..., 1): the
    # same numbers as far as the profiles are concerned
    if case.get('P_form') == 'int':
        Pi = np.round(P)
        if Pi.min() >= 1 and np.all(np.diff(Pi) < 0):
            out.cls('pressure-grid:integer-array')
            P = Pi.astype(np.int64)
    T = np.interp(np.linspace(0, 1, nl), np.linspace(0, 1, len(case['T'])), np.array(case['T']))
    out.cls('class:' + case['class'])
    out.cls('mode:' + ('ktables' if case['ktables'] else 'xsec'))
    if len(case['fill']) >= 3:
        out.cls('fill>=3')
    for g in case['traces']:
        out.cls('type:' + g['type'])

    # ---- the boundary of the valid domain: traces that fill a layer EXACTLY (dyadic values sum to 1.0 without rounding) --
    # "at or below one" is valid: accepted, nothing left for the fill gases, every number finite
    if case.get('exact_unity'):
        out.cls('exact-unity')
        out.applies('exact-unity')
        synth.reset_world()
        try:
            ratio = list(case['ratios'])
            ch = cut(out, 'construct', TaurexChemistry, fill_gases=list(case['fill']),
                     ratio=(ratio if len(ratio) != 1 else ratio[0]) if ratio else 0.0)
            parts = {1: [1.0], 2: [0.5, 0.5], 3: [0.5, 0.25, 0.25], 4: [0.5, 0.25, 0.125, 0.125]}[1 + case['exact_unity'] % 4]
            spare = [m_ for m_ in ('H2O', 'CH4', 'CO2', 'NH3', 'HCN', 'SO2', 'C2H2', 'PH3') if m_ not in case['fill']]
            from taurex.data.profiles.chemistry import ConstantGas
            for m_, v_ in zip(spare, parts):
                ch.addGas(ConstantGas(m_, mix_ratio=v_))
            try:
                with np.errstate(all='ignore'):
                    cut(out, 'initialize_chemistry', ch.initialize_chemistry, nl, T, P, None, expect=(InvalidModelException,))
                mx = np.asarray(ch.mixProfile, dtype=float)
                nf_ = len(case['fill'])
                if not np.all(np.isfinite(mx)) or not np.all(np.isfinite(np.asarray(ch.muProfile, dtype=float))):
                    out.fail('exact-unity@finite', 'traces summing to exactly one give non-finite ratios / molecular weight')
                elif np.any(mx[:nf_] != 0.0) or not close(mx.sum(axis=0), np.ones(nl), rtol=1e-15):
                    out.fail('exact-unity@fill', 'fill gases get %r when the traces sum to exactly one' % float(np.max(np.abs(mx[:nf_]))))
            except InvalidModelException:
                out.fail('exact-unity@rejected', 'a trace total of exactly one (at, not above, the limit) was rejected')
        except CutError:
            pass
        synth.reset_world()
    # ---- each profile alone (raw controls) ------------------------------------------------------
    raw = []
    for g in case['traces']:
        try:
            obj, ctrl = make_gas(g, 1.0, P)
            with np.errstate(all='ignore'):
                cut(out, 'gas-profile@%s,nlayers=%s' % (g['type'], 'x10' if nl % 10 == 0 else 'other'),
                    obj.initialize_profile, nl, T, P, None)
            prof = np.asarray(obj.mixProfile, dtype=float)
        except CutError:
            return out
        out.applies('gas-profile')
        tag = g['type']
        if prof.shape != (nl,):
            out.fail('gas-profile@%s,length' % tag, 'shape %s for %d layers' % (prof.shape, nl))
            return out
        if not np.all(np.isfinite(prof)):
            out.fail('gas-profile@%s,finite' % tag, str(prof[:5]))
            return out
        lo, hi = min(ctrl), max(ctrl)
        if tag == 'power':
            # mathematically positive; a steep law legitimately underflows to exactly 0.0 high up
            if np.any(prof < 0) or np.any(prof > hi * (1 + 1e-9)):
                out.fail('gas-profile@power,range', 'range [%r,%r] deep value %r' % (prof.min(), prof.max(), hi))
        elif np.any(prof < lo * (1 - 1e-9)) or np.any(prof > hi * (1 + 1e-9)):
            out.fail('gas-profile@%s,range' % tag, 'range [%r,%r] controls [%r,%r]' % (prof.min(), prof.max(), lo, hi))
        raw.append(prof)
    peak = float(np.max(np.sum(raw, axis=0))) if raw else 0.0
    cls = case['class']
    if not raw:
        cls = 'valid'
        f = 1.0
    elif cls == 'valid':
        f = (1e-6 + 0.998 * case['target']) / peak
    elif cls == 'boundary':
        f = (1.0 + (case['target'] - 0.5) * 2e-12) / peak
    else:
        f = (1.0001 + 2.0 * case['target']) / peak

    # ---- opacity data for a drawn subset ------------------------------------------------------------
    synth.reset_world()
    allg = list(case['fill']) + [g['mol'] for g in case['traces']]
    have = [m for m, h in zip(allg, case['have']) if h]
    if case['ktables']:
        GlobalCache()['opacity_method'] = 'ktables'
    have_data = list(have)
    if case.get('deactivate') and have:
        # the global switch that withdraws molecules from the absorbers although their data are there: for the split they
        # count as having no opacity data, consistently in every view
        off = [have[i % len(have)] for i in case['deactivate']]
        GlobalCache()['deactive_molecules'] = off
        have = [m for m in have if m not in off]
        out.cls('deactivated-molecule')
    for m in have_data:
        tab = np.ones((1, 1, 2)) * 1e-25
        if case['ktables']:
            KTableCache().add_opacity(synth.SynthKTable(m, [100.0, 200.0], [1000.0], [1e3], tab[..., None], [1.0]))
        else:
            OpacityCache().add_opacity(synth.SynthOpacity(m, [100.0, 200.0], [1000.0], [1e3], tab))
    try:
        ratio = list(case['ratios'])
        kw_ = {'ratio': (ratio if len(ratio) != 1 else ratio[0]) if ratio else 0.0}
        if len(case['fill']) == 1 and case.get('single_ratio') is not None:
            # a single fill gas takes the whole remainder whatever the (unused) ratio argument says: left at its default
            # (0.17567) or given as a number
            out.cls('single-fill-with-ratio')
            kw_ = {} if case['single_ratio'] == 'default' else {'ratio': case['single_ratio']}
        chem = cut(out, 'construct', TaurexChemistry, fill_gases=(list(case['fill']) if case.get('single_ratio') != 'default' or len(case['fill']) != 1
                                                                 else case['fill'][0]), **kw_)
        scaled = []
        for g in case['traces']:
            obj, ctrl = make_gas(g, f, P)
            cut(out, 'addGas', chem.addGas, obj)
        # a rejected point before the judged one, on the same object (a sampler trying an abundance above one: the caller
        # catches the invalid-model error and moves on): the next point is judged on its own merits
        consts = [g['mol'] for g in case['traces'] if g['type'] == 'constant']
        if case.get('rejected_first') and consts:
            fpar = chem.fitting_parameters()
            if consts[0] in fpar:
                keep = fpar[consts[0]][2]()
                fpar[consts[0]][3](1.5)
                try:
                    with np.errstate(all='ignore'):
                        chem.initialize_chemistry(nl, T, P, None)
                except InvalidModelException:
                    out.cls('rejected-point-first')
                fpar[consts[0]][3](keep)
        try:
            with np.errstate(all='ignore'):
                cut(out, 'initialize_chemistry', chem.initialize_chemistry, nl, T, P, None, expect=(InvalidModelException,))
            accepted = True
        except InvalidModelException:
            accepted = False
    except CutError:
        return out
    # the declared profiles at the scaled controls, each evaluated on its own
    decl = []
    for g in case['traces']:
        o2, _ = make_gas(g, f, P)
        with np.errstate(all='ignore'):
            o2.initialize_profile(nl, T, P, None)
        decl.append(np.array(o2.mixProfile, dtype=float, copy=True))
    total = np.sum(decl, axis=0) if decl else np.zeros(nl)
    if not np.all(np.isfinite(total)):
        out.cls('degenerate-controls')
        return out
    pk = float(total.max())
    cls = 'valid' if pk < 1 - 1e-9 else ('invalid' if pk > 1 + 1e-9 else 'boundary')
    if cls == 'invalid':
        out.applies('rejects-invalid')
        if accepted:
            out.fail('rejects-invalid', 'trace total reaches %r but the chemistry was accepted' % float(total.max()))
        out.nontrivial = len(case['traces']) >= 2
        return out
    if cls == 'valid' and not accepted:
        out.applies('accepts-valid')
        out.fail('accepts-valid', 'trace total peaks at %r but the chemistry was rejected' % float(total.max()))
        return out
    if not accepted:
        return out
    out.applies('accepts-valid')
    mix = np.asarray(chem.mixProfile, dtype=float)
    gases = list(chem.gases)
    out.applies('gas-order')
    if gases != allg or mix.shape != (len(allg), nl):
        out.fail('gas-order', 'gases %s shape %s (expected %s)' % (gases, mix.shape, allg))
        return out
    out.applies('non-negative')
    if np.any(mix < (-1e-12 if cls == 'boundary' else 0.0)):
        out.fail('non-negative', 'min ratio %r' % float(mix.min()))
    out.applies('sums-to-one')
    if not close(mix.sum(axis=0), np.ones(nl), rtol=1e-12):
        out.fail('sums-to-one', 'column sums deviate by %.3e' % float(np.max(np.abs(mix.sum(axis=0) - 1))))
    nf = len(case['fill'])
    if nf > 1 and cls == 'valid':
        out.applies('fill-ratios')
        if min(case['ratios']) < 1e-9:
            out.cls('tiny-fill-ratio')
        for i in range(1, nf):
            if not close(mix[i], case['ratios'][i - 1] * mix[0], rtol=1e-12, atol=1e-300):
                out.fail('fill-ratios', '%s/%s != %r' % (case['fill'][i], case['fill'][0], case['ratios'][i - 1]))
                break
    out.applies('traces-as-declared')
    for j, p in enumerate(decl):
        if not close(mix[nf + j], p, rtol=1e-12, atol=1e-300):
            out.fail('traces-as-declared@%s' % case['traces'][j]['type'], 'row of %s is not its own profile' % allg[nf + j])
            break
    # the element table itself, against standard atomic weights typed in here (IUPAC abridged values; the library's table
    # is an older edition of the same numbers: agreement to 5e-4 is asked, a mistyped digit is 1e-3 or more)
    out.applies('atomic-weights')
    used = set()
    for m in allg:
        used.update(re.findall(r'[A-Z][a-z]?', m))
    for el in sorted(used):
        if el in IUPAC and not close(float(MASS[el]), IUPAC[el], rtol=5e-4):
            out.fail('atomic-weights@' + el, 'table holds %r for %s, standard atomic weight %r' % (MASS[el], el, IUPAC[el]))
    out.applies('mean-molecular-weight')
    mu = np.zeros(nl)
    for i, m in enumerate(allg):
        mu = mu + mix[i] * formula_mass(m, MASS) * AMU
    if not close(np.asarray(chem.muProfile, dtype=float), mu, rtol=1e-9):
        out.fail('mean-molecular-weight', 'max rel %.2e' % maxrel(chem.muProfile, mu))
    # active / inactive split
    mode = 'ktables' if case['ktables'] else 'xsec'
    out.applies('active-split')
    act = [m for m in allg if m in have]
    ina = [m for m in allg if m not in have]
    if any(bool(chem.isActive(m)) != (m in act) for m in allg):
        out.fail('active-split@%s,isActive' % mode, 'isActive() disagrees with the split: %s' % {m: bool(chem.isActive(m)) for m in allg})
    if list(chem.activeGases) != act or list(chem.inactiveGases) != ina:
        out.fail('active-split@%s' % mode, 'active %s inactive %s; data available for %s' % (list(chem.activeGases), list(chem.inactiveGases), have))
    else:
        am, im = chem.activeGasMixProfile, chem.inactiveGasMixProfile
        ok = True
        if act:
            ok = ok and np.array_equal(np.asarray(am), mix[[allg.index(m) for m in act]])
        if ina:
            ok = ok and np.array_equal(np.asarray(im), mix[[allg.index(m) for m in ina]])
        for m in allg:
            ok = ok and np.array_equal(np.asarray(chem.get_gas_mix_profile(m)), mix[allg.index(m)])
        if not ok:
            out.fail('active-split@%s,rows' % mode, 'active/inactive rows are not the rows of the mixture')
    types = {g['type'] for g in case['traces']}
    out.nontrivial = bool(len(types) >= 2 and nf >= 2)
    # ---- history: the same chemistry object after its fill ratios were changed through their
    # fitting parameters (what a retrieval does) must again be a valid mixture with the new ratios
    if nf > 1 and cls == 'valid':
        out.cls('refit-fill-ratio')
        fp = chem.fitting_parameters()
        new_ratios = []
        try:
            for i in range(1, nf):
                pname = '%s_%s' % (case['fill'][i], case['fill'][0])
                r = case['ratios'][i - 1] * (2.0 + i) if case['ratios'][i - 1] < 0.5 else case['ratios'][i - 1] / (2.0 + i)
                cut(out, 'fill-ratio-parameter', fp[pname][3], r)
                new_ratios.append(r)
            with np.errstate(all='ignore'):
                cut(out, 'initialize_chemistry@again', chem.initialize_chemistry, nl, T, P, None)
        except CutError:
            return out
        mix2 = np.asarray(chem.mixProfile, dtype=float)
        out.applies('refit-valid-mixture')
        if not close(mix2.sum(axis=0), np.ones(nl), rtol=1e-12):
            out.fail('refit-valid-mixture@sums', 'after changing the fill ratios the columns sum to %r' % float(mix2.sum(axis=0)[0]))
        for i in range(1, nf):
            if not close(mix2[i], new_ratios[i - 1] * mix2[0], rtol=1e-12, atol=1e-300):
                out.fail('refit-valid-mixture@ratios', '%s/%s != %r after the change' % (case['fill'][i], case['fill'][0], new_ratios[i - 1]))
                break
    return out
