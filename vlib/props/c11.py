"""C11 — vertical structure is hydrostatic, ordered and one value per layer."""
import math
import numpy as np
from hypothesis import strategies as st

from vlib.runner import Outcome, cut, CutError, close, maxrel
from vlib import synth, ref, strategies as S

ID = 'C11'
TITLE = 'hydrostatic structure'
CASES = {'quick': 700, 'thorough': 64000}
SHARDS = {'quick': 1, 'thorough': 16}
RULE = ('Generated: (A) planet mass/radius, 1-200 layers, decreasing level pressures (log-spaced or arbitrary '
        'decreasing), arbitrary temperature and molecular-weight arrays, fed to the hydrostatic integration '
        'directly; (B) whole models on the standard log-spaced grid or on an array pressure profile, with '
        'height-varying composition, built and run, after which every exposed or stored per-layer quantity is '
        'inspected.  Non-trivial = >=3 layers and a non-isothermal or non-constant-mu atmosphere; distinct by '
        'case hash.'
        ' After the first evaluation the pressure range of simple-profile models is moved through the fitting parameters and levels, density and the whole hydrostatic structure are judged again.')
ASSUMPTIONS = [
    'G = 6.6743e-11, k_B = 1.380649e-23, MJUP = GM_J/G with GM_J = 1.2668653e17, RJUP = 71492 km typed in',
    'level spacing >= 1e-9 decades, or levels built 1-8 units in the last place apart (strict increase of altitude is asserted there; the values only to the conditioning of ln(P_lower/P_upper))',
    'array pressure profiles: the hydrostatic clauses are asserted when the levels the code derives from the array are strictly decreasing (the statement quantifies over decreasing levels)',
    'rtol 1e-10 on altitude/gravity/scale height against the pure-python reference',
]
RULE = RULE + ' ' + 'Also: levels 1-8 ulp apart, array profiles read from text files (own column, header rows, unit, top-first with reverse=True), temperatures as an integer array; cases stratified by part. Round 9: the planet-change history moves mass and radius together, the mass alone or the radius alone (a third each). Round 11: the pressure-range history moves both ends, the top alone or the bottom alone (a third each).'
REQUIRED = {'re-ranged:min-only': 0.04, 're-ranged:max-only': 0.04, 'planet-changed:mass-only': 0.08, 'rejected-point-then-valid': 0.03, 'temperatures:integer-array': 0.08, 'array:from-file': 0.008, 'array:from-file,top-first': 0.008, 'levels:ulp-spaced': 0.025, 'part:function': 0.2, 'part:model-simple': 0.2, 'part:model-array': 0.08, 'layers:1': 0.01}

MJUP = 1.2668653e17 / 6.6743e-11
RJUP = 71492000.0


STRATA = {'model-simple': 2, 'function': 2, 'model-array': 1}


@st.composite
def _case(draw, part=None):
    part = part or draw(S.pick(['model-simple', 'function', 'model-array', 'function', 'model-simple']))
    c = {'part': part}
    if part == 'function':
        n = draw(st.sampled_from([1, 2, 3, 5, 7, 12, 30, 64, 100, 200]))
        c['n'] = n
        c['mass'] = draw(st.floats(0.01, 20.0))
        c['radius'] = draw(st.floats(0.05, 3.0))
        c['lp0'] = draw(st.floats(2.0, 8.0))
        c['spacing'] = draw(st.sampled_from(['log', 'arbitrary', 'log', 'arbitrary', 'ulp']))
        c['ulps'] = draw(st.lists(S.ints(1, 8), min_size=n, max_size=n)) if c['spacing'] == 'ulp' else []
        c['steps'] = draw(st.lists(st.floats(1e-9, 1.0), min_size=n, max_size=n)) if c['spacing'] == 'arbitrary' else []
        c['decades'] = draw(st.floats(1e-6, 12.0))
        k = draw(S.ints(1, 5))
        c['T'] = draw(st.lists(st.floats(30.0, 5000.0), min_size=k, max_size=k))
        c['mu'] = draw(st.lists(st.floats(1.0, 60.0), min_size=k, max_size=k))
        # temperatures given as whole numbers in an integer array (a profile typed in as 2000, 1800, ...): same numbers
        c['T_form'] = draw(S.pick(['float', 'int', 'float', 'float', 'int']))
    else:
        c['world'] = draw(S.world(layers=(1, 60), nwn=(2, 4), max_active=2, extras=('CIA',), mags=['mixed']))
        c['family'] = draw(st.sampled_from(['transmission', 'emission']))
        c['steps'] = draw(st.lists(st.floats(0.02, 1.0), min_size=60, max_size=60)) if part == 'model-array' else []
        # the array handed over directly, or read from a text file (own column, header rows, unit); listed surface-first or
        # top-first with reverse=True (one joint draw: independent draws left the combination at under 1% of cases)
        src = draw(S.pick([(None, False), ('Pa', True), (None, True), ('bar', False), ('Pa', False), ('bar', True), (None, True)]))
        c['top_first'] = src[1]
        c['from_file'] = src[0] if part == 'model-array' else None
        c['file_layout'] = [draw(S.ints(0, 2)), draw(S.ints(0, 2))]
        c['planet_fac'] = [draw(st.floats(1.2, 2.5)), draw(st.floats(0.6, 0.95))]
    return c


def strategy(tier, part=None):
    return _case(part)


def hydro_reference(M, R, T, Pl, mu):
    n = len(T)
    z = [0.0]
    g, H, dz = [], [], []
    for i in range(n):
        gi = ref.G_NEWTON * M / (R + z[i]) ** 2
        Hi = ref.K_BOLTZ * T[i] / (mu[i] * gi)
        d = Hi * math.log(Pl[i] / Pl[i + 1])
        g.append(gi)
        H.append(Hi)
        dz.append(d)
        z.append(z[i] + d)
    return np.array(z), np.array(H), np.array(g), np.array(dz)


def check_function(out, c):
    from taurex.data import Planet
    n = c['n']
    if c['spacing'] == 'log':
        lp = c['lp0'] - np.linspace(0.0, max(c['decades'], 1e-9 * n * 4), n + 1)
    elif c['spacing'] == 'ulp':
        # the thinnest slab there is: neighbouring levels a few units in the last place apart, still strictly decreasing
        out.cls('levels:ulp-spaced')
        pv = [10.0 ** c['lp0']]
        for k in c['ulps']:
            x = pv[-1]
            for _ in range(k):
                x = float(np.nextafter(x, 0.0))
            pv.append(x)
        lp = np.log10(np.array(pv))
    else:
        lp = c['lp0'] - np.concatenate([[0.0], np.cumsum(c['steps'])])
    Pl = 10.0 ** lp if c['spacing'] != 'ulp' else np.array(pv)
    if not np.all(np.diff(Pl) < 0):
        out.cls('levels-not-representable')
        return
    x = np.linspace(0, 1, n)
    T = np.interp(x, np.linspace(0, 1, len(c['T'])), c['T'])
    mu = np.interp(x, np.linspace(0, 1, len(c['mu'])), c['mu']) * 1.66053906892e-27
    out.cls('layers:%s' % ('1' if n == 1 else ('2-10' if n <= 10 else '>10')))
    T_given = T
    if c.get('T_form') == 'int':
        out.cls('temperatures:integer-array')
        T = np.round(T)
        T_given = T.astype(np.int64)
    pl = cut(out, 'planet', Planet, planet_mass=c['mass'], planet_radius=c['radius'])
    with np.errstate(all='ignore'):
        z, H, g, dz = cut(out, 'calculate_scale_properties', pl.calculate_scale_properties, T_given.copy(), Pl.copy(), mu.copy())
    zr, Hr, gr, dzr = hydro_reference(c['mass'] * MJUP, c['radius'] * RJUP, T, Pl, mu)
    if not np.all(np.isfinite(zr)) or zr[-1] > 1e3 * c['radius'] * RJUP:
        out.cls('unbound-atmosphere')
        return
    out.applies('hydro-shapes')
    if np.shape(z) != (n + 1,) or np.shape(H) != (n,) or np.shape(g) != (n,) or np.shape(dz) != (n,):
        out.fail('hydro-shapes', 'z %s H %s g %s dz %s for %d layers' % (np.shape(z), np.shape(H), np.shape(g), np.shape(dz), n))
        return
    out.applies('hydro-values')
    # log(P_i/P_{i+1}) of nearly equal levels carries a relative rounding error of eps/ln(ratio)
    lr = float(np.min(np.log(Pl[:-1] / Pl[1:])))
    # (a difference of two logarithms is the same formula; its rounding error is eps*|ln P| instead of eps, and is allowed for)
    rt = 1e-10 + 4 * 2.3e-16 * (2.0 + 2.0 * float(np.max(np.abs(np.log(Pl))))) / lr
    for name, a, b in (('altitude', z, zr), ('scaleheight', H, Hr), ('gravity', g, gr), ('thickness', dz, dzr)):
        if not close(a, b, rtol=rt, atol=1e-9 * abs(zr[-1]) * 1e-6):
            out.fail('hydro-values@' + name, 'max rel %.2e' % maxrel(a, b))
    out.applies('hydro-ordered')
    if z[0] != 0.0 or not np.all(np.diff(z) > 0):
        out.fail('hydro-ordered', 'altitude does not start at zero / increase strictly')
    # the same structure expressed in kilometres
    out.applies('hydro-units')
    with np.errstate(all='ignore'):
        zk, Hk, gk, dzk = cut(out, 'calculate_scale_properties@km', pl.calculate_scale_properties,
                              T_given.copy(), Pl.copy(), mu.copy(), 'km')
    if not close(zk, z / 1000.0, rtol=1e-12) or not close(dzk, dz / 1000.0, rtol=1e-12) or not close(Hk, H / 1000.0, rtol=1e-12):
        out.fail('hydro-units', 'kilometre result is not the metre result / 1000 (max rel %.2e)' % maxrel(zk, z / 1000.0))
    out.nontrivial = bool(n >= 3 and (len(set(c['T'])) > 1 or len(set(c['mu'])) > 1))


def check_model(out, c):
    from taurex.data.profiles.pressure.arraypressure import ArrayPressureProfile
    w = c['world']
    W = cut(out, 'build-world', synth.build_world, w)
    nl = w['nlayers']
    out.cls('layers:%s' % ('1' if nl == 1 else ('2-10' if nl <= 10 else '>10')))
    array = c['part'] == 'model-array' and nl >= 2      # an array profile needs two entries to define layer widths
    if array:
        lp = math.log10(W.pmax) - np.concatenate([[0.0], np.cumsum(c['steps'][:max(nl - 1, 0)])])
        arr = 10.0 ** lp[:nl]
        # the array may be listed surface-first, or top-first with reverse=True: the same profile either way
        if c.get('top_first'):
            out.cls('array:top-first')
            W.pressure = ArrayPressureProfile(arr[::-1].copy(), reverse=True)
            out.applies('array-order-independent')
            pa, pb = ArrayPressureProfile(arr[::-1].copy(), reverse=True), ArrayPressureProfile(arr.copy())
            pa.compute_pressure_profile()
            pb.compute_pressure_profile()
            # (levels to 1e-14: numpy's log10 takes another code path on the reversed, non-contiguous view and may differ
            # in the last bit)
            if not np.array_equal(np.asarray(pa.profile), np.asarray(pb.profile)) or \
                    not close(np.asarray(pa.pressure_profile_levels), np.asarray(pb.pressure_profile_levels), rtol=1e-14):
                out.fail('array-order-independent', 'top-first listing with reverse=True gives other layers / levels than the surface-first listing')
        else:
            W.pressure = ArrayPressureProfile(arr.copy())
        if c.get('from_file'):
            import os, tempfile
            from taurex.data.profiles.pressure.filepressure import FilePressureProfile
            out.cls('array:from-file' + (',top-first' if c.get('top_first') else ''))
            unit, (col, skip) = c['from_file'], c['file_layout']
            listed = (arr[::-1] if c.get('top_first') else arr) / (1e5 if unit == 'bar' else 1.0)
            fd, fname = tempfile.mkstemp(suffix='.dat')
            try:
                with os.fdopen(fd, 'w') as f:
                    for _ in range(skip):
                        f.write('index pressure\n')
                    for i, v in enumerate(listed):
                        f.write(' '.join(['%d' % i] * col + ['%.17e' % v]) + '\n')
                W.pressure = cut(out, 'construct@file-pressure', FilePressureProfile, filename=fname, usecols=col, skiprows=skip,
                                 units=unit, reverse=bool(c.get('top_first')))
            finally:
                os.remove(fname)
    kw = {}
    m = cut(out, 'build-model', synth.make_model, W, c['family'], None, **kw)
    if nl >= 2:
        with np.errstate(all='ignore'):
            cut(out, 'model', m.model)
    P = np.asarray(m.pressureProfile, dtype=float)
    Pl = np.asarray(m.pressure.pressure_profile_levels, dtype=float)
    T = np.asarray(m.temperatureProfile, dtype=float)
    mu = np.asarray(m.chemistry.muProfile, dtype=float)
    tag = 'array' if array else 'simple'
    out.applies('levels')
    if Pl.shape != (nl + 1,) or P.shape != (nl,):
        out.fail('levels@%s,count' % tag, 'levels %s layers %s for %d layers' % (Pl.shape, P.shape, nl))
        return
    decreasing = bool(np.all(np.diff(Pl) < 0))
    if not array:
        if not decreasing:
            out.fail('levels@simple,order', 'levels are not strictly decreasing')
        want = np.logspace(math.log10(W.pmax), math.log10(W.pmin), nl + 1)
        if not close(Pl, want, rtol=1e-12) or not close(P, np.sqrt(Pl[:-1] * Pl[1:]), rtol=1e-12):
            out.fail('levels@simple,values', 'levels are not log-spaced / layer pressure is not the geometric mean')
    elif not (np.array_equal(P, arr) if c.get('from_file') != 'bar' else close(P, arr, rtol=1e-14)):
        out.fail('levels@array,layers%s' % (',from-file' if c.get('from_file') else ''), 'layer pressures are not the supplied array')
    # one value per layer, everywhere
    out.applies('one-per-layer')
    named = {
        'pressureProfile': P, 'temperatureProfile': T, 'densityProfile': m.densityProfile,
        'altitudeProfile': m.altitudeProfile, 'gravity_profile': m.gravity_profile,
        'scaleheight_profile': m.scaleheight_profile, 'deltaz': m.deltaz, 'muProfile': mu,
    }
    for k, v in named.items():
        if np.shape(v) != (nl,):
            out.fail('one-per-layer@' + k, '%s has shape %s for %d layers' % (k, np.shape(v), nl))
    if np.shape(m.altitude_boundaries) != (nl + 1,):
        out.fail('one-per-layer@altitude_boundaries', 'shape %s' % (np.shape(m.altitude_boundaries),))
    for k, v in (('activeGasMixProfile', m.chemistry.activeGasMixProfile), ('inactiveGasMixProfile', m.chemistry.inactiveGasMixProfile)):
        if v is not None and np.shape(v)[-1] != nl:
            out.fail('one-per-layer@' + k, 'shape %s' % (np.shape(v),))
    prof = cut(out, 'generate_profiles', m.generate_profiles)
    for k, v in prof.items():
        if v is None:
            continue
        if np.shape(v)[-1] != nl:
            out.fail('one-per-layer@stored:' + k, 'stored profile %s has shape %s for %d layers' % (k, np.shape(v), nl))
    # hydrostatic values
    if decreasing and np.all(np.isfinite(np.asarray(m.altitude_boundaries, dtype=float))):
        M = W.g_surface * (w['radius'] * RJUP) ** 2 / ref.G_NEWTON
        zr, Hr, gr, dzr = hydro_reference(M, w['radius'] * RJUP, T, Pl, mu)
        out.applies('model-hydro')
        pairs = [('altitude_boundaries', m.altitude_boundaries, zr), ('altitudeProfile', m.altitudeProfile, zr[:-1]),
                 ('deltaz', m.deltaz, dzr)]
        if np.shape(m.gravity_profile) == (nl,):
            pairs.append(('gravity_profile', m.gravity_profile, gr))
        if np.shape(m.scaleheight_profile) == (nl,):
            pairs.append(('scaleheight_profile', m.scaleheight_profile, Hr))
        for name, a, b in pairs:
            if np.shape(a) == np.shape(b) and not close(a, b, rtol=1e-9, atol=1e-12 * abs(zr[-1])):
                out.fail('model-hydro@%s,%s' % (name, tag), 'max rel %.2e' % maxrel(a, b))
        out.applies('density')
        if np.shape(m.densityProfile) == (nl,) and not close(m.densityProfile, P / (ref.K_BOLTZ * T), rtol=1e-12):
            out.fail('density', 'n != P/kT')
        zb = np.asarray(m.altitude_boundaries, dtype=float)
        out.applies('model-ordered')
        if zb[0] != 0.0 or not np.all(np.diff(zb) > 0):
            out.fail('model-ordered@' + tag, 'altitude does not start at zero / increase strictly')
    elif array:
        out.cls('array-levels-not-decreasing')
    out.nontrivial = bool(nl >= 3 and (np.ptp(T) > 0 or np.ptp(mu) > 0))
    # ---- history: the pressure range changed through the fitting parameters of the same model
    if not array and nl >= 2:
        out.cls('re-ranged')
        # both ends moved, or only the top, or only the bottom (a retrieval fitting one of them alone)
        which = ('both', 'min-only', 'max-only')[c.get('file_layout', [0, 0])[0] % 3]
        out.cls('re-ranged:' + which)
        new_min = W.pmin * 0.037 if which != 'max-only' else W.pmin
        new_max = W.pmax * 2.9 if which != 'min-only' else W.pmax
        if which != 'max-only':
            m['atm_min_pressure'] = new_min
        if which != 'min-only':
            m['atm_max_pressure'] = new_max
        with np.errstate(all='ignore'):
            cut(out, 'model@re-ranged', m.model)
        P2 = np.asarray(m.pressureProfile, dtype=float)
        Pl2 = np.asarray(m.pressure.pressure_profile_levels, dtype=float)
        out.applies('re-ranged-levels')
        want2 = np.logspace(math.log10(new_max), math.log10(new_min), nl + 1)
        if Pl2.shape != (nl + 1,) or not close(Pl2, want2, rtol=1e-12) or not close(P2, np.sqrt(Pl2[:-1] * Pl2[1:]), rtol=1e-12):
            out.fail('re-ranged-levels', 'after changing the pressure range the layers are not the geometric mean of the new levels')
        if np.shape(m.densityProfile) == (nl,) and not close(m.densityProfile, P2 / (ref.K_BOLTZ * np.asarray(m.temperatureProfile)), rtol=1e-12):
            out.fail('re-ranged-density', 'n != P/kT after the range change')
        # ... and the structure must be hydrostatic on the NEW levels (nothing kept from the first range)
        T2 = np.asarray(m.temperatureProfile, dtype=float)
        mu2 = np.asarray(m.chemistry.muProfile, dtype=float)
        if Pl2.shape == (nl + 1,) and np.all(np.diff(Pl2) < 0) and np.all(np.isfinite(np.asarray(m.altitude_boundaries, dtype=float))):
            M = W.g_surface * (w['radius'] * RJUP) ** 2 / ref.G_NEWTON
            zr, Hr, gr, dzr = hydro_reference(M, w['radius'] * RJUP, T2, Pl2, mu2)
            out.applies('re-ranged-hydro')
            for name, a, b in (('altitude_boundaries', m.altitude_boundaries, zr), ('altitudeProfile', m.altitudeProfile, zr[:-1]),
                               ('deltaz', m.deltaz, dzr), ('gravity_profile', m.gravity_profile, gr),
                               ('scaleheight_profile', m.scaleheight_profile, Hr)):
                if np.shape(a) != np.shape(b) or not close(a, b, rtol=1e-9, atol=1e-12 * abs(zr[-1])):
                    out.fail('re-ranged-hydro@' + name, 'after the range change: max rel %.2e' % (maxrel(a, b) if np.shape(a) == np.shape(b) else -1))

    fm_, fr_ = planet_changed(out, c, W, m, w, nl) or (1.0, 1.0)
    rejected_point(out, c, W, m, w, nl, fm_, fr_)


def rejected_point(out, c, W, m, w, nl, fm, fr):
    """history: a sampled point that is refused (an abundance above one together with another temperature; the caller
    catches the invalid-model error), then the abundance is put back and the model evaluated: the structure is that of
    the parameters now in force"""
    from taurex.exceptions import InvalidModelException
    if nl < 2 or 'T' not in m.fittingParameters:
        return
    mols = [g['mol'] for g in w['gases'] if g.get('table') is not None and g.get('logtop') is None and not g.get('zero')
            and g['mol'] in m.fittingParameters]
    if not mols:
        return
    keep = float(m[mols[0]])
    m['T'] = float(m['T']) * 1.31
    m[mols[0]] = 1.5
    try:
        with np.errstate(all='ignore'):
            m.model()
        return                                  # accepted: C10's business, nothing to learn here
    except InvalidModelException:
        out.cls('rejected-point-then-valid')
    except Exception:
        return
    m[mols[0]] = keep
    with np.errstate(all='ignore'):
        cut(out, 'model@after-rejected-point', m.model)
    Pl = np.asarray(m.pressure.pressure_profile_levels, dtype=float)
    T = np.asarray(m.temperatureProfile, dtype=float)
    mu = np.asarray(m.chemistry.muProfile, dtype=float)
    if Pl.shape != (nl + 1,) or not np.all(np.diff(Pl) < 0) or not np.all(np.isfinite(np.asarray(m.altitude_boundaries, dtype=float))):
        return
    M = W.g_surface * (w['radius'] * RJUP) ** 2 / ref.G_NEWTON * fm
    R = w['radius'] * RJUP * fr
    zr, Hr, gr, dzr = hydro_reference(M, R, T, Pl, mu)
    if not np.all(np.isfinite(zr)) or zr[-1] > 1e3 * R:
        return
    out.applies('after-rejected-point-hydro')
    for name, a, b in (('altitude_boundaries', m.altitude_boundaries, zr), ('deltaz', m.deltaz, dzr),
                       ('gravity_profile', m.gravity_profile, gr), ('scaleheight_profile', m.scaleheight_profile, Hr)):
        if np.shape(a) != np.shape(b) or not close(a, b, rtol=1e-9, atol=1e-12 * abs(zr[-1])):
            out.fail('after-rejected-point-hydro@' + name, 'after a refused point and the abundance put back: max rel %.2e'
                     % (maxrel(a, b) if np.shape(a) == np.shape(b) else -1))


def planet_changed(out, c, W, m, w, nl):
    """history: mass and radius moved through the model's fitting parameters (what a retrieval does), then the
    structure is recomputed: it must be hydrostatic for the planet as it now is"""
    fm, fr = c.get('planet_fac', [1.7, 0.8])
    if nl < 2:
        return
    out.cls('planet-changed')
    # both moved, or only one of them (a retrieval fitting the mass alone leaves every other input of the structure as it was)
    only = ('both', 'mass-only', 'radius-only')[sum(c.get('file_layout', [0, 0])) % 3]
    out.cls('planet-changed:' + only)
    if only == 'mass-only':
        fr = 1.0
    elif only == 'radius-only':
        fm = 1.0
    if fm != 1.0:
        m['planet_mass'] = m['planet_mass'] * fm
    if fr != 1.0:
        m['planet_radius'] = m['planet_radius'] * fr
    with np.errstate(all='ignore'):
        cut(out, 'model@planet-changed', m.model)
    Pl = np.asarray(m.pressure.pressure_profile_levels, dtype=float)
    T = np.asarray(m.temperatureProfile, dtype=float)
    mu = np.asarray(m.chemistry.muProfile, dtype=float)
    if Pl.shape != (nl + 1,) or not np.all(np.diff(Pl) < 0) or not np.all(np.isfinite(np.asarray(m.altitude_boundaries, dtype=float))):
        return
    M = W.g_surface * (w['radius'] * RJUP) ** 2 / ref.G_NEWTON * fm
    R = w['radius'] * RJUP * fr
    zr, Hr, gr, dzr = hydro_reference(M, R, T, Pl, mu)
    out.applies('planet-changed-hydro')
    for name, a, b in (('altitude_boundaries', m.altitude_boundaries, zr), ('deltaz', m.deltaz, dzr),
                       ('gravity_profile', m.gravity_profile, gr), ('scaleheight_profile', m.scaleheight_profile, Hr)):
        if np.shape(a) != np.shape(b) or not close(a, b, rtol=1e-9, atol=1e-12 * abs(zr[-1])):
            out.fail('planet-changed-hydro@' + name, 'after mass x%.2f radius x%.2f: max rel %.2e'
                     % (fm, fr, maxrel(a, b) if np.shape(a) == np.shape(b) else -1))
    return fm, fr


def check(case):
    out = Outcome()
    out.cls('part:' + case['part'])
    try:
        if case['part'] == 'function':
            check_function(out, case)
        else:
            check_model(out, case)
    except CutError:
        pass
    return out
