"""C15 — an input file builds exactly the documented object graph."""
import contextlib
import inspect
import io
import math
import os
import pickle
import shutil
import sys
import tempfile
import numpy as np
from hypothesis import strategies as st

from vlib.runner import Outcome, cut, CutError, close, maxrel
from vlib import synth, strategies as S

ID = 'C15'
TITLE = 'input files'
CASES = {'quick': 150, 'thorough': 12000}
SHARDS = {'quick': 1, 'thorough': 16}
RULE = ('Generated: well-formed input files over the built-in sections: a temperature profile (isothermal / guillot '
        '/ npoint), pressure, planet, star, chemistry with 1-3 gases of type constant / twolayer / twopoint, model '
        '(transmission / emission / directimage) with contribution sub-sections; each documented constructor key is '
        'either given (numbers as ints / floats / exponents, booleans as true / yes / False / no, comma lists) or '
        'omitted; optionally one unknown selector or one unknown key is injected; optionally a composite '
        '"mixin+base" selector or a custom python file is used; a third of the cases run the command-line program '
        'in-process on the file.  The finite table of documented selectors is checked exhaustively in every case '
        'of the selectors part.  Non-trivial = >=3 non-default keys across >=3 sections; distinct by case hash.'
        ' A fifth part runs the command-line program in retrieval mode (-R) with the sampler replaced by a double delivering drawn samples: the saved spectrum and the stored solution must be the MAP model binned to the observation, the stored traces the delivered samples. A fourth part generates [Observation] / [Binning] / [Instrument] / [Optimizer] / [Fitting] / [Derive] sections (observation files in any row order, all five manual-grid keywords, accurate on/off, SNR instrument, nestle and multinest keys, fit / bounds / mode / factor / prior options on parameters resolved against the model the file builds, unknown names and keys); fill-gas lists include the word NO.')
ASSUMPTIONS = [
    '"documented" = doc/source/user/taurex/*.rst in the working tree; the selector table is transcribed in this module and each entry is checked to occur in the rst text and to resolve to exactly one discovered class of its family',
    'constructor arguments are observed by wrapping __init__ of the built-in classes from the harness (no repository change); numbers must arrive equal in value (int vs float is not distinguished, the parser produces floats), booleans as bool, comma lists as lists of floats or strings',
    'optimizers needing absent libraries (polychord, dypolychord) and plugin components (ace, BHMie) cannot be discovered here and are not judged',
    'CLI differential: taurex.taurex.main() run in-process with -i -o -S on files the harness wrote (pickle cross-sections, pickle CIA); spectrum compared with the same components built through the library, rtol 1e-9',
]
RULE = RULE + ' ' + 'Also: composite tempscalar+<base> selectors with drawn scale factor and zero-valued keys, mis-cased contribution sections, [Binning] sections for the program run, the file temperature (and pressure) profile with its documented keys, numbers written with a capital E or a leading plus; cases stratified by part and variant. Round 9: the custom class comes in through python_file or through a folder named under [Global] (extension_paths, and the documented spelling extension_path) and its own keyword.'
REQUIRED = {'cli-binning:native-with-observation': 0.015, 'cli-binning:manual': 0.04, 'negative:miscased-contribution': 0.012, 'mixin-zero-valued-key': 0.012, 'two-mixins': 0.006, 'zero-valued-key': 0.05, 'part:sections': 0.12, 'part:cli': 0.06, 'part:selectors': 0.002, 'part:retrieval': 0.06, 'part:cli-retrieval': 0.03, 'negative': 0.05}
# coverage-guided extra (thorough tier): pure-Python taurex modules on this property's path, instrumented by atheris
FUZZ = {'include': ['taurex.parameter', 'taurex.util.util'], 'runs': 6000, 'workers': 4}

# family -> (ClassFactory attribute, rst file, {selector: class name})
DOCUMENTED = {
    'temperature': ('temperatureKlasses', 'temperature.rst', {'isothermal': 'Isothermal', 'guillot2010': 'Guillot2010', 'guillot': 'Guillot2010',
                                                                'npoint': 'NPoint', 'rodgers': 'Rodgers2000', 'file': 'TemperatureFile'}),
    'pressure': ('pressureKlasses', 'pressure.rst', {'simple': 'SimplePressureProfile', 'hydrostatic': 'SimplePressureProfile'}),
    'chemistry': ('chemistryKlasses', 'chemistry.rst', {'taurex': 'TaurexChemistry', 'free': 'TaurexChemistry', 'file': 'ChemistryFile'}),
    'gas': ('gasKlasses', 'chemistry.rst', {'constant': 'ConstantGas', 'twopoint': 'TwoPointGas', 'twolayer': 'TwoLayerGas'}),
    'planet': ('planetKlasses', 'planet.rst', {'simple': 'Planet'}),
    'star': ('starKlasses', 'star.rst', {'blackbody': 'BlackbodyStar', 'phoenix': 'PhoenixStar'}),
    'model': ('modelKlasses', 'models.rst', {'transmission': 'TransmissionModel', 'emission': 'EmissionModel', 'directimage': 'DirectImageModel'}),
    'contribution': ('contributionKlasses', 'models.rst', {'Absorption': 'AbsorptionContribution', 'CIA': 'CIAContribution',
                                                          'Rayleigh': 'RayleighContribution', 'SimpleClouds': 'SimpleCloudsContribution',
                                                          'ThickClouds': 'SimpleCloudsContribution', 'LeeMie': 'LeeMieContribution',
                                                          'FlatMie': 'FlatMieContribution'}),
    'optimizer': ('optimizerKlasses', 'optimizer.rst', {'nestle': 'NestleOptimizer', 'multinest': 'MultiNestOptimizer'}),
    'instrument': ('instrumentKlasses', 'instrument.rst', {'snr': 'SNRInstrument'}),
}
PRIOR_NAMES = ['Uniform', 'LogUniform', 'Gaussian', 'LogGaussian']
def _docdir():
    # documentation of the tree that is actually imported (normally /repo; a scratch worktree when
    # a seeded change is evaluated with PYTHONPATH pointing at it)
    import taurex
    root = os.path.dirname(os.path.dirname(os.path.abspath(taurex.__file__)))
    return os.path.join(root, 'doc', 'source', 'user', 'taurex')


DOCDIR = _docdir()

NUMFORM = st.sampled_from(['repr', 'exp', 'int', 'repr', 'EXP', 'plus'])
BOOLTRUE = ['true', 'yes', 'True', 'YES']
BOOLFALSE = ['false', 'no', 'False', 'NO']


def _opt(strategy):
    """a key is given (value) or omitted (None)"""
    return st.one_of(st.none(), strategy)


# 'part:variant' forces the composite-selector variant of that part (each variant gets its share of every run)
STRATA = {'selectors': 1, 'cli-retrieval': 2, 'sections': 2, 'sections:mixin': 1, 'sections:mixin2': 0.5, 'sections:custom': 0.5, 'sections:negative': 1, 'sections:tfile': 0.7, 'cli': 2, 'cli:native-obs': 0.6,
          'retrieval': 2}


@st.composite
def _case(draw, part=None):
    forced = None
    if part and ':' in part:
        part, forced = part.split(':')
    part = part or draw(S.pick(['selectors', 'cli-retrieval', 'sections', 'cli', 'retrieval', 'cli-retrieval', 'sections', 'cli', 'retrieval', 'sections']))
    c = {'part': part}
    if part == 'selectors':
        c['case_variant'] = draw(S.ints(0, 3))
        return c
    f = st.floats
    c['family'] = draw(st.sampled_from(['transmission', 'emission', 'directimage']))
    c['temp'] = draw(st.sampled_from(['isothermal', 'npoint', 'guillot', 'isothermal', 'guillot2010']))
    c['tkeys'] = {'T': draw(_opt(f(300, 2500))), 'T_irr': draw(_opt(f(800, 2500))), 'kappa_irr': draw(_opt(f(1e-3, 0.1))),
                  'kappa_v1': draw(_opt(f(1e-3, 0.1))), 'kappa_v2': draw(_opt(f(1e-3, 0.1))), 'alpha': draw(_opt(f(0.1, 0.9))),
                  'T_int': draw(_opt(f(50, 500))), 'T_surface': draw(_opt(f(800, 2500))), 'T_top': draw(_opt(f(300, 1500))),
                  'temperature_points': draw(_opt(st.lists(f(300, 2500), min_size=2, max_size=2))),
                  'smoothing_window': draw(_opt(S.ints(3, 40)))}
    c['pkeys'] = {'nlayers': draw(_opt(S.ints(3, 12))), 'atm_min_pressure': draw(_opt(f(1e-3, 1.0))), 'atm_max_pressure': draw(_opt(f(1e4, 1e7)))}
    c['plkeys'] = {'planet_mass': draw(_opt(f(0.5, 3.0))), 'planet_radius': draw(_opt(f(0.7, 1.6))), 'planet_distance': draw(_opt(f(0.01, 2.0))),
                   'impact_param': draw(_opt(f(0.0, 0.9))), 'orbital_period': draw(_opt(f(0.5, 20.0))), 'albedo': draw(_opt(f(0.0, 0.9))),
                   'transit_time': draw(_opt(f(1000, 9000)))}
    c['skeys'] = {'temperature': draw(_opt(f(3000, 9000))), 'radius': draw(_opt(f(0.3, 2.0))), 'distance': draw(_opt(f(1.0, 200.0))),
                  'magnitudeK': draw(_opt(f(5.0, 12.0))), 'mass': draw(_opt(f(0.3, 2.0))), 'metallicity': draw(_opt(f(0.5, 2.0)))}
    ngas = draw(S.ints(1, 3))
    c['gases'] = []
    for i in range(ngas):
        # twopoint is an open known finding (undiscoverable class): kept rare so the search goes on behind it
        gt = draw(st.sampled_from(['constant', 'twolayer'] * 5 + ['twopoint']))
        c['gases'].append({'type': gt, 'mix_ratio': draw(_opt(f(-8, -3))), 'mix_ratio_surface': draw(_opt(f(-6, -3))),
                           'mix_ratio_top': draw(_opt(f(-9, -5))), 'mix_ratio_P': draw(_opt(f(1.0, 4.0))),
                           'mix_ratio_smoothing': draw(_opt(S.ints(5, 40)))})
    c['ratio'] = draw(_opt(f(0.05, 0.4)))
    # keys written with the value zero: a value like any other, it must reach the constructor (not the default)
    c['zero_keys'] = draw(st.lists(st.sampled_from(['T_int', 'alpha', 'mix_ratio', 'smoothing_window', 'albedo', 'impact_param']), max_size=2, unique=True))
    c['fill'] = draw(st.sampled_from([['H2', 'He'], ['H2', 'He', 'NO'], ['N2', 'NO'], ['H2', 'He'], ['H2', 'He', 'N2', 'CO']]))
    c['mkeys'] = {'new_path_method': draw(_opt(st.booleans())), 'ngauss': draw(_opt(S.ints(1, 6)))}
    c['contribs'] = draw(st.lists(st.sampled_from(['CIA', 'Rayleigh', 'SimpleClouds', 'ThickClouds', 'FlatMie', 'LeeMie']), max_size=3, unique=True))
    c['ckeys'] = {'clouds_pressure': draw(_opt(f(1.0, 5.0))), 'flat_mix_ratio': draw(_opt(f(-28, -22))), 'flat_bottomP': draw(_opt(f(3.0, 5.0))),
                  'flat_topP': draw(_opt(f(0.5, 2.0))), 'lee_mie_radius': draw(_opt(f(0.01, 2.0))), 'lee_mie_q': draw(_opt(f(1.0, 80.0))),
                  'lee_mie_mix_ratio': draw(_opt(f(-16, -8))), 'lee_mie_bottomP': draw(_opt(f(3.0, 5.0))), 'lee_mie_topP': draw(_opt(f(0.5, 2.0)))}
    c['forms'] = draw(st.lists(NUMFORM, min_size=12, max_size=12))
    c['boolform'] = draw(S.ints(0, 3))
    c['negative'] = draw(st.sampled_from([None, None, None, 'unknown-key', 'unknown-selector', 'unknown-contribution', 'miscased-contribution']))
    c['miscase'] = draw(S.ints(0, 5))
    c['neg_where'] = draw(st.sampled_from(['Temperature', 'Pressure', 'Chemistry', 'Model', 'Gas', 'Contribution', 'Planet', 'Star']))
    c['composite'] = draw(st.sampled_from(['mixin', None, 'mixin2', None, 'mixin', 'custom', 'mixin2r', None, 'mixin']))
    if forced == 'tfile':
        # the temperature profile read from a text file (profile_type = file) with its documented keys
        c['temp'] = 'file'
        c['composite'] = None
        c['negative'] = None
        c['tfile'] = {'skiprows': draw(st.sampled_from([None, 1, 2, 0, 1])), 'temp_col': draw(st.sampled_from([None, 0, 1])),
                      'with_p': draw(st.booleans()), 'temp_units': draw(st.sampled_from([None, 'K'])),
                      'press_units': draw(st.sampled_from([None, 'Pa', 'bar'])), 'reverse': draw(st.sampled_from([None, False, True])),
                      'T': draw(st.lists(f(300.0, 2500.0), min_size=4, max_size=4)),
                      'pressure_file': draw(st.sampled_from([True, False, True]))}
    elif forced == 'negative':
        c['negative'] = draw(S.pick(['miscased-contribution', 'unknown-key', 'unknown-selector', 'unknown-contribution', 'miscased-contribution']))
        c['composite'] = None
    elif forced and forced != 'native-obs':
        c['composite'] = forced if forced != 'mixin2' else draw(st.sampled_from(['mixin2', 'mixin2r']))
        c['negative'] = None
        if forced == 'mixin2':
            c['temp'] = 'isothermal'
        elif forced == 'mixin':
            c['temp'] = draw(st.sampled_from(['guillot', 'isothermal', 'guillot2010']))
    # the scale factor given to a `tempscalar+<base>` selector (one of the mixin's own constructor keywords); exactly zero is a value too
    c['scale_factor'] = draw(st.sampled_from([0.0, 1.0, 2.5, 0.0, None]))
    c['tables'] = draw(st.lists(S.table(6, mag='mixed'), min_size=3, max_size=3))
    c['wn0'] = draw(f(300.0, 4000.0))
    c['dwn'] = draw(f(5.0, 300.0))
    if part == 'cli':
        # a [Binning] section for the program run: what is stored and saved is then the binned spectrum
        c['cli_binning'] = draw(S.pick(['manual', 'native', None, 'manual', 'native']))
        c['cli_obs'] = draw(st.sampled_from([True, False, True]))
        if forced == 'native-obs':
            c['cli_binning'], c['cli_obs'] = 'native', True
        c['cli_bin'] = {'kind': draw(st.sampled_from(['wavenumber_grid', 'wavelength_grid', 'log_wavenumber_grid'])), 'n': draw(S.ints(2, 5)),
                        'span': [draw(f(0.05, 0.35)), draw(f(0.65, 0.95))], 'accurate': draw(st.sampled_from([None, True, False]))}
    if part == 'cli-retrieval':
        nsm = draw(S.ints(3, 8))
        c['cube'] = [[draw(f(0.05, 0.95)), draw(f(0.05, 0.95))] for _ in range(nsm)]
        c['cube_w'] = [draw(f(0.05, 1.0)) for _ in range(nsm)]
    if part == 'retrieval':
        c['negative'] = None
        c['composite'] = None
        c['temp'] = draw(st.sampled_from(['isothermal', 'npoint']))
        c['tkeys']['temperature_points'] = None         # the model is built here: keep the profile valid for any pressure range
        c['gases'] = [g for g in c['gases'] if g['type'] != 'twopoint'] or [{'type': 'constant', 'mix_ratio': -4.0}]
        # --- [Observation]
        c['obs'] = draw(st.sampled_from(['file4', 'file3', None, 'file4']))
        c['obs_rows'] = draw(S.ints(3, 8))
        c['obs_perm'] = draw(S.perm(list(range(8))))
        c['obs_vals'] = draw(st.lists(f(1e-3, 2e-2), min_size=8, max_size=8))
        c['obs_errs'] = draw(st.lists(f(1e-5, 1e-3), min_size=8, max_size=8))
        c['obs_wf'] = draw(st.lists(f(0.3, 1.0), min_size=8, max_size=8))
        # --- [Binning]
        c['binning'] = draw(st.sampled_from(['observed', 'manual', 'native', None, 'manual', 'observed']))
        c['bin_kind'] = draw(st.sampled_from(['wavelength_grid', 'log_wavenumber_grid', 'wavenumber_grid', 'log_wavelength_grid', 'wavelength_res']))
        c['bin_n'] = draw(S.ints(2, 9))
        c['bin_res'] = draw(f(3.0, 40.0))
        c['bin_span'] = draw(st.tuples(f(0.0, 0.4), f(0.6, 1.0)))
        c['accurate'] = draw(st.sampled_from([True, None, False]))
        # --- [Instrument]
        c['instrument'] = draw(st.sampled_from(['snr', None, 'SNR', 'signal-noise-ratio']))
        c['snr'] = draw(_opt(f(1.0, 500.0)))
        c['num_obs'] = draw(_opt(S.ints(1, 30)))
        # --- [Optimizer]
        c['optimizer'] = draw(st.sampled_from(['multinest', 'nestle']))
        c['okeys'] = {'num_live_points': draw(_opt(S.ints(5, 3000))), 'tol': draw(_opt(f(0.01, 5.0))),
                      'method': draw(_opt(st.sampled_from(['single', 'classic', 'multi']))), 'sigma_fraction': draw(_opt(f(0.01, 0.9))),
                      'max_iterations': draw(_opt(S.ints(0, 5000))), 'evidence_tolerance': draw(_opt(f(0.01, 5.0))),
                      'search_multi_modes': draw(_opt(st.booleans())), 'importance_sampling': draw(_opt(st.booleans())),
                      'maximum_modes': draw(_opt(S.ints(1, 200))), 'resume': draw(_opt(st.booleans())),
                      'multinest_prefix': draw(_opt(st.sampled_from(['run-', 'x_', '2-'])))}
        c['oneg'] = draw(st.sampled_from([None, None, None, 'unknown-key', 'unknown-selector']))
        # --- [Fitting] / [Derive]
        # names are indices into the sorted fitting parameters of the model the file builds (resolved by the
        # check); -1 is a name no model has
        c['fitting'] = draw(st.lists(st.fixed_dictionaries({
            'name': st.sampled_from(list(range(12)) + [-1]), 'fit': st.sampled_from([True, True, None, False]),
            'bounds': _opt(st.tuples(f(1e-3, 1.0), f(1.5, 5e3))), 'mode': _opt(st.sampled_from(['log', 'linear', 'LOG', 'Linear'])),
            'factor': _opt(st.tuples(f(0.1, 0.9), f(1.1, 4.0))),
            'prior': _opt(st.sampled_from(['Uniform(bounds=(0.5, 2.5))', 'LogUniform(bounds=(-3, 1))', 'Gaussian(mean=1.5, std=0.25)',
                                           'LogGaussian(mean=-1.0, std=0.5)', 'LogUniform(lin_bounds=(0.01, 100))', 'uniform(bounds=[1,2])']))}),
            max_size=5, unique_by=lambda d: d['name']))
        c['derive_mu'] = draw(st.sampled_from([None, True, False]))
    return c


def strategy(tier, part=None):
    return _case(part)


# ---------------------------------------------------------------------------------------------------
def check_selectors(out):
    from taurex.parameter.classfactory import ClassFactory
    from taurex.parameter import factory
    cf = ClassFactory()
    for fam, (attr, rst, table) in DOCUMENTED.items():
        text = open(os.path.join(DOCDIR, rst)).read()
        klasses = list(getattr(cf, attr))
        for sel, cname in table.items():
            out.applies('selector-documented')
            if sel not in text:
                out.fail('selector-documented@%s:%s' % (fam, sel), 'harness table entry not found in %s' % rst)
            owners = []
            for k in klasses:
                try:
                    kws = k.input_keywords()
                except Exception:
                    continue
                if sel in kws:
                    owners.append(k.__name__)
            out.applies('selector-unique')
            if owners != [cname]:
                out.fail('selector-unique@%s:%s' % (fam, sel), 'selector %r of [%s] is claimed by %s, documented class %s' % (sel, fam, owners, cname))
    # ---- every key listed in a documented "Keywords" table is a constructor keyword of the documented class
    famof = {'temperature.rst': {'profile_type': 'temperature'}, 'pressure.rst': {'profile_type': 'pressure'},
             'chemistry.rst': {'chemistry_type': 'chemistry', 'gas_type': 'gas'}, 'star.rst': {'star_type': 'star'},
             'models.rst': {'contribution': 'contribution', 'model_type': 'model'}}
    for rst, fields in famof.items():
        for (field, sel), keys in doc_keys(rst).items():
            fam = fields.get(field)
            if fam is None:
                continue
            if rst == 'pressure.rst' and sel == 'custom':
                sel = 'simple'
            cname = DOCUMENTED[fam][2].get(sel)
            if cname is None:
                continue                # plugin components (ace, BHMie) are not part of this tree
            klass = [k for k in getattr(cf, DOCUMENTED[fam][0]) if k.__name__ == cname]
            if not klass:
                continue
            params = set(inspect.signature(klass[0].__init__).parameters)
            for key in keys:
                out.applies('documented-key-exists')
                if key not in params:
                    out.fail('documented-key-exists@%s.%s' % (cname, key), '%s documents key %r for %s=%s; %s takes %s'
                             % (rst, key, field, sel, cname, sorted(params - {'self'})))
    out.applies('prior-names')
    for pn in PRIOR_NAMES:
        for form in (pn, pn.lower(), pn.upper()):
            try:
                obj = factory.create_prior('%s()' % form)
                if type(obj).__name__ != pn:
                    out.fail('prior-names@' + pn, '%s() built %s' % (form, type(obj).__name__))
            except Exception as e:
                out.fail('prior-names@%s,raises' % pn, '%s() raised %s' % (form, type(e).__name__))
    out.applies('unknown-selector-is-error')
    for fn_name, arg in (('temp_factory', 'no-such-thing'), ('gas_factory', 'no-such-thing'), ('model_factory', 'no-such-thing'),
                         ('star_factory', 'no-such-thing'), ('pressure_factory', 'no-such-thing'), ('chemistry_factory', 'no-such-thing')):
        try:
            getattr(factory, fn_name)(arg)
            out.fail('unknown-selector-is-error@' + fn_name, 'unknown selector accepted')
        except Exception:
            pass
    return True


def doc_keys(rst):
    """{(selector field, selector): [keys]} from the 'Keywords' tables of an rst file"""
    import re
    lines = open(os.path.join(DOCDIR, rst)).read().split('\n')
    cur, inkw, res = None, False, {}
    for i, l in enumerate(lines):
        m = re.match(r'^``(\w+) ?= ?([\w+-]+)``', l)
        if m:
            cur, inkw = (m.group(1), m.group(2)), False
            continue
        m = re.match(r'^``\[\[(\w+)\]\]``', l)
        if m:
            cur, inkw = ('contribution', m.group(1)), False
            continue
        if i + 1 < len(lines) and re.match(r'^[-=~^]{3,}$', lines[i + 1]) and l.strip() and not l.startswith(('|', '+')):
            inkw = l.strip().lower() == 'keywords'
            continue
        m = re.match(r'^\| ``(\w+)``', l)
        if m and inkw and cur:
            res.setdefault(cur, []).append(m.group(1))
    return res


# ---------------------------------------------------------------------------------------------------
def fmt_num(x, form):
    if form == 'int' and float(x).is_integer():
        return str(int(x))
    if form == 'exp':
        return '%.17e' % x
    if form == 'EXP':
        return '%.17E' % x              # 1.5E+03: the exponent marker in capitals, as Fortran-minded users write it
    if form == 'plus' and float(x) >= 0:
        return '+' + repr(float(x))
    return repr(float(x))


class Recorder:
    """wraps __init__ of classes to record the arguments each constructor received"""

    def __init__(self, klasses):
        self.klasses = klasses
        self.calls = []
        self.saved = {}

    def __enter__(self):
        for k in self.klasses:
            orig = k.__dict__.get('__init__')
            if orig is None:
                continue
            self.saved[k] = orig

            def make(k=k, orig=orig):
                def wrapper(obj, *a, **kw):
                    eff_cls = next((c_ for c_ in type(obj).__mro__ if '__init__' in c_.__dict__), None)
                    if eff_cls is k:      # k's __init__ is the constructor Python runs for this object
                        try:
                            ba = inspect.signature(orig).bind(obj, *a, **kw)
                            given = dict(list(ba.arguments.items())[1:])
                            ba.apply_defaults()
                            eff = dict(list(ba.arguments.items())[1:])
                        except TypeError:
                            given, eff = dict(kw), dict(kw)
                        self.calls.append((type(obj).__name__, obj, given, eff))
                    return orig(obj, *a, **kw)
                wrapper.__signature__ = inspect.signature(orig)      # the factory inspects constructor signatures
                wrapper.__name__ = '__init__'
                return wrapper
            k.__init__ = make()
        return self

    def __exit__(self, *a):
        for k, orig in self.saved.items():
            k.__init__ = orig


_ORDER_MIXINS = []


_FACTORY_RELOADED = []


def load_order_mixins():
    """two temperature mixins of the harness (the documentation's doubler and add50), registered once through the
    public plug-in entry of the class factory"""
    if _ORDER_MIXINS:
        # a reload of the class factory forgets plugins; the one reload this module causes itself (a folder named under [Global],
        # flagged by check()) is made good here - any other loss of registered classes is the code's doing and must show
        if _FACTORY_RELOADED:
            from taurex.parameter.classfactory import ClassFactory
            ClassFactory().load_plugin(_ORDER_MIXINS[0])
            del _FACTORY_RELOADED[:]
        return
    import types
    from taurex.mixin import TemperatureMixin
    from taurex.parameter.classfactory import ClassFactory

    class VerifDoubler(TemperatureMixin):
        def __init_mixin__(self):
            pass

        @property
        def profile(self):
            return super().profile * 2.0

        @classmethod
        def input_keywords(cls):
            return ['verifdoubler']

    class VerifAdd50(TemperatureMixin):
        def __init_mixin__(self):
            pass

        @property
        def profile(self):
            return super().profile + 50.0

        @classmethod
        def input_keywords(cls):
            return ['verifadd50']
    mod = types.ModuleType('verif_order_mixins')
    mod.VerifDoubler, mod.VerifAdd50 = VerifDoubler, VerifAdd50
    VerifDoubler.__module__ = VerifAdd50.__module__ = 'verif_order_mixins'
    ClassFactory().load_plugin(mod)
    _ORDER_MIXINS.append(mod)


def build_par(c, tmp, W):
    """text of the input file and the expectation {class name: {key: value}} of keys GIVEN"""
    forms = c['forms']
    fi = [0]

    def num(x):
        fi[0] += 1
        return fmt_num(x, forms[fi[0] % len(forms)])

    def boolean(b):
        return (BOOLTRUE if b else BOOLFALSE)[c['boolform']]
    expect = {}
    lines = ['[Global]', 'xsec_path = %s' % os.path.join(tmp, 'xsec'), 'cia_path = %s' % os.path.join(tmp, 'cia'), '']
    # ---- chemistry
    # fill-gas lists of names: a list of words stays a list of those words (NO is nitric oxide, not a boolean)
    fill = c.get('fill') or ['H2', 'He']
    lines += ['[Chemistry]', 'chemistry_type = taurex', 'fill_gases = %s' % ','.join(fill)]
    exp_chem = {'fill_gases': list(fill)}
    if c['ratio'] is not None or len(fill) != 2:
        if c['ratio'] is None:
            c = dict(c, ratio=0.25)             # one ratio per extra fill gas is required
        if len(fill) == 2:
            lines.append('ratio = %s' % num(c['ratio']))
            exp_chem['ratio'] = c['ratio']
        else:
            rr = [c['ratio'] * (0.5 ** i) for i in range(len(fill) - 1)]
            lines.append('ratio = %s' % ','.join(num(x) for x in rr))
            exp_chem['ratio'] = rr
    expect['TaurexChemistry'] = [exp_chem]
    gas_classes = {'constant': 'ConstantGas', 'twolayer': 'TwoLayerGas', 'twopoint': 'TwoPointGas'}
    mols = list(W.tables.keys())
    for i, g in enumerate(c['gases'][:len(mols)]):
        mol = mols[i]
        lines.append('    [[%s]]' % mol)
        lines.append('    gas_type = %s' % g['type'])
        e = {'molecule_name': mol}
        keys = {'constant': ['mix_ratio'], 'twolayer': ['mix_ratio_surface', 'mix_ratio_top', 'mix_ratio_P', 'mix_ratio_smoothing'],
                'twopoint': ['mix_ratio_surface', 'mix_ratio_top']}[g['type']]
        for k in keys:
            if g[k] is None:
                continue
            v = float(g[k]) if k == 'mix_ratio_smoothing' else 10.0 ** g[k]
            if k == 'mix_ratio' and 'mix_ratio' in c.get('zero_keys', []):
                v = 0.0
            lines.append('    %s = %s' % (k, num(v)))
            e[k] = v
        expect.setdefault(gas_classes[g['type']], []).append(e)
    lines.append('')
    # ---- temperature
    tsel = c['temp']
    tk = c['tkeys']
    tclass = {'isothermal': 'Isothermal', 'guillot': 'Guillot2010', 'guillot2010': 'Guillot2010', 'npoint': 'NPoint', 'file': 'TemperatureFile'}[tsel]
    sel_text = tsel
    if c['composite'] == 'mixin' and tsel in ('isothermal', 'guillot', 'guillot2010'):
        sel_text = 'tempscalar+' + tsel
    if c['composite'] in ('mixin2', 'mixin2r') and tsel == 'isothermal':
        # two mixins that do not commute (documented example: doubler, add50), in either order
        load_order_mixins()
        sel_text = 'verifdoubler+verifadd50+isothermal' if c['composite'] == 'mixin2' else 'verifadd50+verifdoubler+isothermal'
    lines += ['[Temperature]', 'profile_type = %s' % sel_text]
    e = {}
    if tclass == 'TemperatureFile':
        tf = c['tfile']
        tcol = tf['temp_col'] if tf['temp_col'] is not None else 0
        pcol = 1 - tcol
        punit = tf['press_units'] or 'Pa'
        pmax_ = c['pkeys']['atm_max_pressure'] if c['pkeys']['atm_max_pressure'] is not None else 1e6
        pmin_ = c['pkeys']['atm_min_pressure'] if c['pkeys']['atm_min_pressure'] is not None else 1e-4
        pr = [pmax_ * (pmin_ / pmax_) ** (i / 3.0) * (1e-5 if punit == 'bar' else 1.0) for i in range(4)]
        tfn = os.path.join(tmp, 'tp_profile.dat')
        with open(tfn, 'w') as fh:
            for _ in range(tf['skiprows'] or 0):
                fh.write('temperature pressure\n')
            for i in range(4):
                row = [None, None]
                row[tcol], row[pcol] = '%.10e' % tf['T'][i], '%.10e' % pr[i]
                fh.write(' '.join(row) + '\n')
        lines.append('filename = %s' % tfn)
        e['filename'] = tfn
        if tf['skiprows'] is not None:
            lines.append('skiprows = %d' % tf['skiprows'])
            e['skiprows'] = tf['skiprows']
        if tf['temp_col'] is not None:
            lines.append('temp_col = %d' % tf['temp_col'])
            e['temp_col'] = tf['temp_col']
        if tf['with_p']:
            lines.append('press_col = %d' % pcol)
            e['press_col'] = pcol
            if tf['press_units'] is not None:
                lines.append('press_units = %s' % tf['press_units'])
                e['press_units'] = tf['press_units']
        if tf['temp_units'] is not None:
            lines.append('temp_units = %s' % tf['temp_units'])
            e['temp_units'] = tf['temp_units']
        if tf['reverse'] is not None and not tf['with_p']:
            lines.append('reverse = %s' % boolean(tf['reverse']))
            e['reverse'] = bool(tf['reverse'])
    keys = {'TemperatureFile': [], 'Isothermal': ['T'], 'Guillot2010': ['T_irr', 'kappa_irr', 'kappa_v1', 'kappa_v2', 'alpha', 'T_int'],
            'NPoint': ['T_surface', 'T_top', 'temperature_points', 'smoothing_window']}[tclass]
    for k in keys:
        if tk[k] is None:
            continue
        if k == 'temperature_points':
            lines.append('temperature_points = %s' % ','.join(num(x) for x in tk[k]))
            # interior nodes strictly inside the pressure range this file declares (defaults 1e6 .. 1e-4 Pa)
            pmax_ = c['pkeys']['atm_max_pressure'] if c['pkeys']['atm_max_pressure'] is not None else 1e6
            pmin_ = c['pkeys']['atm_min_pressure'] if c['pkeys']['atm_min_pressure'] is not None else 1e-4
            pp = [float('%.6g' % (pmax_ * (pmin_ / pmax_) ** 0.3)), float('%.6g' % (pmax_ * (pmin_ / pmax_) ** 0.6))]
            lines.append('pressure_points = %s' % ','.join(num(x) for x in pp))
            e[k] = [float(x) for x in tk[k]]
            e['pressure_points'] = pp
        else:
            val_ = 0.0 if k in c.get('zero_keys', []) else tk[k]
            lines.append('%s = %s' % (k, num(val_)))
            e[k] = float(val_)
    if sel_text.startswith('tempscalar'):
        # a scale factor of zero makes a zero-kelvin profile: only where the model is built, not run
        sf = c.get('scale_factor', 1.0)
        if sf == 0.0 and c.get('part') != 'sections':
            sf = 1.0
        if sf is not None:
            lines.append('scale_factor = %s' % num(sf))
        expect['__mixin__'] = (dict(e), 1.0 if sf is None else float(sf), tsel, sel_text)
    elif sel_text.startswith('verif'):
        pass
    else:
        expect[tclass] = [e]
    lines.append('')
    # ---- pressure / planet / star
    if tclass == 'TemperatureFile' and c['tfile'].get('pressure_file'):
        # the SAME selector word under another section: [Pressure] profile_type = file reads layer pressures from a text file
        # (each section resolves the word among the classes of its own kind)
        pfn = os.path.join(tmp, 'pressure_profile.dat')
        pmax_ = c['pkeys']['atm_max_pressure'] if c['pkeys']['atm_max_pressure'] is not None else 1e6
        pmin_ = c['pkeys']['atm_min_pressure'] if c['pkeys']['atm_min_pressure'] is not None else 1e-4
        with open(pfn, 'w') as fh:
            for i in range(12):
                fh.write('%d %.10e\n' % (i, pmax_ * (pmin_ / pmax_) ** (i / 11.0)))
        lines += ['[Pressure]', 'profile_type = file', 'filename = %s' % pfn, 'usecols = 1']
        expect['FilePressureProfile'] = [{'filename': pfn, 'usecols': 1}]
    else:
        lines += ['[Pressure]', 'profile_type = %s' % ('hydrostatic' if c['boolform'] % 2 else 'simple')]
        e = {}
        for k, v in c['pkeys'].items():
            if v is not None:
                lines.append('%s = %s' % (k, num(v)))
                e[k] = float(v)
        expect['SimplePressureProfile'] = [e]
    lines += ['', '[Planet]', 'planet_type = simple']
    e = {}
    for k, v in c['plkeys'].items():
        if v is not None:
            if k in c.get('zero_keys', []):
                v = 0.0
            lines.append('%s = %s' % (k, num(v)))
            e[k] = float(v)
    expect['Planet'] = [e]
    lines += ['', '[Star]', 'star_type = blackbody']
    e = {}
    for k, v in c['skeys'].items():
        if v is not None:
            lines.append('%s = %s' % (k, num(v)))
            e[k] = float(v)
    expect['BlackbodyStar'] = [e]
    # ---- model
    mclass = {'transmission': 'TransmissionModel', 'emission': 'EmissionModel', 'directimage': 'DirectImageModel'}[c['family']]
    lines += ['', '[Model]', 'model_type = %s' % c['family']]
    e = {}
    if c['family'] == 'transmission' and c['mkeys']['new_path_method'] is not None:
        lines.append('new_path_method = %s' % boolean(c['mkeys']['new_path_method']))
        e['new_path_method'] = bool(c['mkeys']['new_path_method'])
    if c['family'] != 'transmission' and c['mkeys']['ngauss'] is not None:
        lines.append('ngauss = %s' % num(c['mkeys']['ngauss']))
        e['ngauss'] = float(c['mkeys']['ngauss'])
    expect[mclass] = [e]
    lines.append('    [[Absorption]]')
    expect['AbsorptionContribution'] = [{}]
    ck = c['ckeys']
    for name in c['contribs']:
        if name in ('SimpleClouds', 'ThickClouds') and c['family'] != 'transmission':
            continue
        if name == 'CIA' and not {'H2', 'He'} <= set(fill):
            continue                            # the only pair on disk is H2-He
        if name in ('SimpleClouds', 'ThickClouds') and 'SimpleCloudsContribution' in expect:
            continue
        lines.append('    [[%s]]' % name)
        e = {}
        if name == 'CIA':
            lines.append('    cia_pairs = H2-He,')
            e['cia_pairs'] = ['H2-He']
            expect['CIAContribution'] = [e]
        elif name == 'Rayleigh':
            expect['RayleighContribution'] = [e]
        elif name in ('SimpleClouds', 'ThickClouds'):
            if ck['clouds_pressure'] is not None:
                lines.append('    clouds_pressure = %s' % num(10.0 ** ck['clouds_pressure']))
                e['clouds_pressure'] = 10.0 ** ck['clouds_pressure']
            expect['SimpleCloudsContribution'] = [e]
        elif name == 'FlatMie':
            for k in ('flat_mix_ratio', 'flat_bottomP', 'flat_topP'):
                if ck[k] is not None:
                    lines.append('    %s = %s' % (k, num(10.0 ** ck[k])))
                    e[k] = 10.0 ** ck[k]
            expect['FlatMieContribution'] = [e]
        else:
            for k in ('lee_mie_radius', 'lee_mie_q', 'lee_mie_mix_ratio', 'lee_mie_bottomP', 'lee_mie_topP'):
                if ck[k] is not None:
                    v = 10.0 ** ck[k] if k in ('lee_mie_mix_ratio', 'lee_mie_bottomP', 'lee_mie_topP') else ck[k]
                    lines.append('    %s = %s' % (k, num(v)))
                    e[k] = v
            expect['LeeMieContribution'] = [e]
    return lines, expect


def inject_negative(lines, c):
    """returns new lines with one unknown selector / key / contribution"""
    kind, where = c['negative'], c['neg_where']
    out_lines = list(lines)
    if kind == 'unknown-contribution':
        out_lines.append('    [[NoSuchContribution]]')
        return out_lines, 'Model'
    if kind == 'miscased-contribution':
        # a documented contribution keyword in another letter case, for a contribution the file does not otherwise hold:
        # not one of the documented names, so an error -- or, were names matched without regard to case, that
        # contribution built; never a model silently lacking it
        for name, klass in [('rayleigh', 'RayleighContribution'), ('RAYLEIGH', 'RayleighContribution'), ('absorption', 'AbsorptionContribution'),
                            ('simpleclouds', 'SimpleCloudsContribution'), ('Rayleigh ', None), ('cia', 'CIAContribution')][c.get('miscase', 0) % 6:]:
            if klass is None or any(l.strip().lower() == '[[%s]]' % name.lower() for l in out_lines):
                continue
            out_lines.append('    [[%s]]' % name)
            if klass == 'CIAContribution':
                out_lines.append('    cia_pairs = H2-H2,')
            return out_lines, 'Model:' + klass
        return None, None
    header = {'Gas': None, 'Contribution': '    [[Absorption]]'}.get(where, '[%s]' % where)
    if where == 'Gas':
        idx = [i for i, l in enumerate(out_lines) if l.startswith('    gas_type')]
        if not idx:
            return None, None
        if kind == 'unknown-selector':
            out_lines[idx[0]] = '    gas_type = no-such-gas-profile'
        else:
            out_lines.insert(idx[0] + 1, '    not_a_parameter = 3')
        return out_lines, 'Chemistry'
    if header not in out_lines:
        return None, None
    i = out_lines.index(header)
    if kind == 'unknown-selector':
        if where == 'Contribution':
            out_lines[i] = '    [[NotAContribution]]'
            return out_lines, 'Model'
        out_lines[i + 1] = out_lines[i + 1].split('=')[0] + '= no-such-component'
    else:
        out_lines.insert(i + 2 if where != 'Contribution' else i + 1, ('    ' if where == 'Contribution' else '') + 'not_a_parameter = 3')
    return out_lines, ('Model' if where in ('Contribution',) else where)


def write_data(c, tmp):
    """pickle cross-sections + pickle CIA on disk; returns a synthetic World description for the library build"""
    os.makedirs(os.path.join(tmp, 'xsec'))
    os.makedirs(os.path.join(tmp, 'cia'))
    wn = c['wn0'] + c['dwn'] * np.arange(6)
    mols = ['H2O', 'CH4', 'CO2'][:max(1, len(c['gases']))]

    class W:
        pass
    W.tables = {}
    W.wn = wn
    for mol, t in zip(mols, c['tables']):
        Tg, Pg, tab = synth.table_arrays(t, 6)
        with open(os.path.join(tmp, 'xsec', '%s.R100.TauREx.pickle' % mol), 'wb') as f:
            pickle.dump({'wno': wn, 't': Tg, 'p': Pg / 1e5, 'xsecarr': tab, 'name': mol}, f)
        W.tables[mol] = (Tg, Pg, tab, wn)
    Tc = np.array([100.0, 1000.0, 3000.0])
    cia = 1e-55 * (1.0 + np.arange(18).reshape(3, 6))
    with open(os.path.join(tmp, 'cia', 'H2-He_verif.db'), 'wb') as f:
        pickle.dump({'wno': wn, 't': Tc, 'xsecarr': cia}, f)
    W.cia = (Tc, cia)
    return W


def builtin_classes():
    from taurex.parameter.classfactory import ClassFactory
    cf = ClassFactory()
    ks = set()
    for attr in ('temperatureKlasses', 'pressureKlasses', 'chemistryKlasses', 'gasKlasses', 'planetKlasses', 'starKlasses',
                 'modelKlasses', 'contributionKlasses'):
        ks.update(getattr(cf, attr))
    allk = set()
    for k in ks:
        for b in k.__mro__:
            if b.__module__.startswith('taurex.') and '__init__' in b.__dict__:
                allk.add(b)
    return sorted(allk, key=lambda k: k.__name__)


def values_equal(a, b):
    if isinstance(b, bool):
        return isinstance(a, (bool, np.bool_)) and bool(a) == b
    if isinstance(b, list):
        if not isinstance(a, (list, tuple, np.ndarray)) or len(a) != len(b):
            return False
        return all(values_equal(x, y) for x, y in zip(a, b))
    if isinstance(b, str):
        return isinstance(a, str) and a == b
    try:
        return (not isinstance(a, (bool, str))) and close(float(a), float(b), rtol=1e-15)
    except (TypeError, ValueError):
        return False


def check_sections(out, c, tmp, run_cli):
    from taurex.parameter import ParameterParser
    synth.reset_world()
    W = write_data(c, tmp)
    lines, expect = build_par(c, tmp, W)
    mixin_expect = expect.pop('__mixin__', None)
    negative = c['negative'] if not run_cli else None
    where = None
    if negative:
        out.cls('negative')
        neg_lines, where = inject_negative(lines, c)
        if neg_lines is None:
            negative = None
        else:
            lines = neg_lines
    if c.get('zero_keys'):
        out.cls('zero-valued-key')
    if c['composite'] == 'custom' and not negative:
        out.cls('custom-class')
        py = os.path.join(tmp, 'mytemp.py')
        with open(py, 'w') as f:
            f.write('import numpy as np\nfrom taurex.temperature import TemperatureProfile\nfrom taurex.planet import Planet\n\n\nclass MyIso(TemperatureProfile):\n'
                    '    def __init__(self, T=777.0, extra=2.0):\n        super().__init__("MyIso")\n        self.T = T\n        self.extra = extra\n\n'
                    '    @property\n    def profile(self):\n        return np.ones(self.nlayers) * self.T\n\n'
                    '    @classmethod\n    def input_keywords(cls):\n        return ["myiso"]\n\n\n'
                    'class MyPlanet(Planet):\n'
                    '    def __init__(self, planet_mass=1.0, planet_radius=1.0, tag=3.0):\n'
                    '        super().__init__(planet_mass=planet_mass, planet_radius=planet_radius)\n        self.tag = tag\n\n'
                    '    @classmethod\n    def input_keywords(cls):\n        return ["myplanet"]\n')
        # the two documented ways of bringing one's own class in (custom.rst): python_file under the section, or a folder
        # named under [Global] (the text spells the key extension_path, the code reads extension_paths) and the class's keyword
        via = ('python_file', 'extension_paths', 'extension_path')[c['miscase'] % 3]
        out.cls('custom-class:' + via)
        if via != 'python_file':
            os.makedirs(os.path.join(tmp, 'ext'))
            os.rename(py, os.path.join(tmp, 'ext', 'mytemp.py'))
            lines.insert(1, '%s = %s' % (via, os.path.join(tmp, 'ext')))
        i = lines.index('[Temperature]')
        j = lines.index('', i)
        lines[i + 1:j] = ['profile_type = custom', 'python_file = %s' % py, 'extra = 5', 'T = 1234'] if via == 'python_file' \
            else ['profile_type = myiso', 'extra = 5', 'T = 1234']
        for k in ('Isothermal', 'Guillot2010', 'NPoint'):
            expect.pop(k, None)
        if c['boolform'] % 2 == 0:
            # a second custom section served by the same python file: each section gets the class of its own kind
            out.cls('two-custom-sections')
            i = lines.index('[Planet]')
            j = lines.index('', i)
            lines[i + 1:j] = ['planet_type = custom', 'python_file = %s' % py, 'planet_mass = 1.25', 'tag = 8'] if via == 'python_file' \
                else ['planet_type = myplanet', 'planet_mass = 1.25', 'tag = 8']
            expect.pop('Planet', None)
    if any(l.startswith('profile_type = tempscalar') for l in lines):
        out.cls('mixin-selector')
    if run_cli and c.get('cli_binning'):
        out.cls('cli-binning:' + c['cli_binning'])
        if c['cli_binning'] == 'native' and c.get('cli_obs'):
            # native binning asked for while an observation is loaded too: the spectrum stays at native resolution
            out.cls('cli-binning:native-with-observation')
            cen_ = np.linspace(W.wn[0] + 0.2 * (W.wn[-1] - W.wn[0]), W.wn[-1] - 0.2 * (W.wn[-1] - W.wn[0]), 3)
            wl_ = 10000.0 / cen_
            rows_ = np.column_stack([wl_, [1e-3, 1.1e-3, 0.9e-3], [1e-5, 2e-5, 3e-5], 0.6 * (wl_[0] - wl_[1]) * np.ones(3)])
            ofile_ = os.path.join(tmp, 'obs_cli.dat')
            np.savetxt(ofile_, rows_, fmt='%.17e')
            lines += ['', '[Observation]', 'observed_spectrum = %s' % ofile_]
        lines += ['', '[Binning]', 'bin_type = %s' % c['cli_binning']]
        if c['cli_binning'] == 'manual':
            cb = c['cli_bin']
            lo_ = W.wn[0] + cb['span'][0] * (W.wn[-1] - W.wn[0])
            hi_ = W.wn[0] + cb['span'][1] * (W.wn[-1] - W.wn[0])
            if 'wavelength' in cb['kind']:
                lo_, hi_ = 10000.0 / hi_, 10000.0 / lo_
            lines.append('%s = %r, %r, %d' % (cb['kind'], float(lo_), float(hi_), cb['n']))
            if cb['accurate'] is not None:
                lines.append('accurate = %s' % ('True' if cb['accurate'] else 'False'))
    par = os.path.join(tmp, 'input.par')
    with open(par, 'w') as f:
        f.write('\n'.join(lines) + '\n')
    nondefault = sum(len(e) for v in expect.values() for e in v)
    sections = sum(1 for v in expect.values() for e in v if e)
    pp = ParameterParser()
    cut(out, 'parser.read', pp.read, par)
    cut(out, 'setup_globals', pp.setup_globals)
    with Recorder(builtin_classes()) as rec:
        try:
            with np.errstate(all='ignore'):
                model = pp.generate_appropriate_model()
            failed = None
        except Exception as e:                              # noqa
            failed = e
    if negative:
        out.applies('unknown-is-error')
        if negative == 'miscased-contribution':
            out.cls('negative:miscased-contribution')
        if failed is None and negative == 'miscased-contribution':
            want_k = where.split(':')[1]
            if not any(type(x).__name__ == want_k for x in model.contribution_list):
                out.fail('unknown-is-error@miscased-contribution', 'section %s was accepted and the model holds no %s (contributions: %s)'
                         % (lines[-1].strip() if not lines[-1].strip().startswith('cia_pairs') else lines[-2].strip(), want_k, [type(x).__name__ for x in model.contribution_list]))
        elif failed is None:
            out.fail('unknown-is-error@%s,%s' % (negative, c['neg_where']), 'the input file was accepted')
        return nondefault >= 3
    if failed is not None:
        tb = failed.__traceback__
        where_ = ''
        while tb is not None:
            if '/taurex/' in tb.tb_frame.f_code.co_filename:
                where_ = '%s:%s' % (os.path.basename(tb.tb_frame.f_code.co_filename), tb.tb_frame.f_code.co_name)
            tb = tb.tb_next
        disc = ''
        if 'twopoint' in str(failed) and any(g['type'] == 'twopoint' for g in c['gases']):
            disc = 'gas:twopoint@'
        out.fail('builds@%sraises:%s:%s' % (disc, type(failed).__name__, where_), '%s: %s\n%s' % (type(failed).__name__, failed, '\n'.join(lines[4:40])))
        return False
    # ---- every key given reached its constructor; omitted keys are the defaults --------------------------
    out.applies('keys-reach-constructor')
    by_class = {}
    for name, obj, given, eff in rec.calls:
        by_class.setdefault(name, []).append((obj, given, eff))
    for cname, exps in expect.items():
        got = by_class.get(cname, [])
        if len(got) < len(exps):
            out.fail('keys-reach-constructor@%s,not-built' % cname, '%d instance(s) built, %d expected' % (len(got), len(exps)))
            continue
        for e in exps:
            # match by molecule for gases
            cands = [g for g in got if 'molecule_name' not in e or g[2].get('molecule_name') == e['molecule_name']]
            if not cands:
                out.fail('keys-reach-constructor@%s,not-built' % cname, 'no instance for %s' % e.get('molecule_name'))
                continue
            obj, given, eff = cands[-1]
            sig = inspect.signature(type(obj).__init__ if type(obj).__name__ == cname else obj.__class__.__init__)
            for k, v in e.items():
                if k not in eff or not values_equal(eff[k], v):
                    out.fail('keys-reach-constructor@%s.%s' % (cname, k), '%s=%r written, constructor received %r' % (k, v, eff.get(k)))
            for k, v in eff.items():
                if k in e or k in ('planet', 'star', 'chemistry', 'temperature_profile', 'pressure_profile', 'observation', 'molecule_name'):
                    continue
                p = sig.parameters.get(k)
                if p is not None and p.default is not inspect.Parameter.empty and not _same_default(v, p.default):
                    out.fail('keys-reach-constructor@%s.%s,default' % (cname, k), '%s omitted, constructor received %r instead of the default %r' % (k, v, p.default))
    # the number of emission angles the built model integrates over is the documented ngauss (default 4), whichever model
    # class the key was addressed to
    if c['family'] != 'transmission' and hasattr(model, '_mu_quads'):
        out.applies('quadrature-count')
        want_ng = int(c['mkeys']['ngauss']) if c['mkeys']['ngauss'] is not None else 4
        got_ng = int(np.size(model._mu_quads))
        if got_ng != want_ng:
            out.fail('quadrature-count@%s,%s' % (c['family'], 'given' if c['mkeys']['ngauss'] is not None else 'default'),
                     'ngauss = %s in the file, the model integrates over %d angles' % (c['mkeys']['ngauss'], got_ng))
    tp = model.temperature
    if c['composite'] == 'custom' and not negative:
        out.applies('custom-class')
        if type(tp).__name__ != 'MyIso' or getattr(tp, 'extra', None) != 5.0 or getattr(tp, 'T', None) != 1234.0:
            out.fail('custom-class', 'custom temperature class: got %s extra=%r T=%r' % (type(tp).__name__, getattr(tp, 'extra', None), getattr(tp, 'T', None)))
        if any(l.startswith(('planet_type = custom', 'planet_type = myplanet')) for l in lines):
            pl_ = model.planet
            if type(pl_).__name__ != 'MyPlanet' or getattr(pl_, 'tag', None) != 8.0:
                out.fail('custom-class@second-section', 'custom planet from the same file: got %s tag=%r' % (type(pl_).__name__, getattr(pl_, 'tag', None)))
    if any(l.startswith('profile_type = tempscalar') for l in lines):
        from taurex.temperature import Isothermal
        from taurex.mixin.mixins import TempScaler
        out.applies('mixin-selector')
        from taurex.temperature import Guillot2010
        tsel, sel_text = mixin_expect[2:]
        base = Isothermal if tsel == 'isothermal' else Guillot2010
        if not isinstance(tp, base) or not isinstance(tp, TempScaler):
            out.fail('mixin-selector', '%s built %s' % (sel_text, [k.__name__ for k in type(tp).__mro__[:4]]))
        else:
            # every key of the section reaches the constructor it belongs to (the base class's or the mixin's), omitted
            # ones keep that constructor's default -- exactly as for a plain selector
            defaults = {'T': 1500, 'T_irr': 1500, 'kappa_irr': 0.01, 'kappa_v1': 0.005, 'kappa_v2': 0.005, 'alpha': 0.5, 'T_int': 100}
            attr = {'T': 'isoTemperature', 'kappa_irr': 'kappa_ir'}
            given, sf_want = mixin_expect[:2]
            for k_ in (['T'] if tsel == 'isothermal' else ['T_irr', 'kappa_irr', 'kappa_v1', 'kappa_v2', 'alpha', 'T_int']):
                want_ = given.get(k_, defaults[k_])
                got_ = getattr(tp, attr.get(k_, k_), None)
                if not values_equal(got_, want_):
                    out.fail('mixin-selector@%s,%s' % (k_, 'zero' if want_ == 0 else ('given' if k_ in given else 'default')),
                             '%s: %s written as %r, the object holds %r' % (sel_text, k_, given.get(k_, 'omitted'), got_))
            if not values_equal(tp.scaleFactor, sf_want):
                out.fail('mixin-selector@scale_factor,%s' % ('zero' if sf_want == 0 else 'given'), '%s: scale_factor %r, the object holds %r' % (sel_text, sf_want, tp.scaleFactor))
            if sf_want == 0 or any(v == 0 for v in given.values()):
                out.cls('mixin-zero-valued-key')
    if any(l.startswith('profile_type = verif') for l in lines):
        out.cls('two-mixins')
        out.applies('mixin-order')
        T0 = float(c['tkeys']['T']) if c['tkeys']['T'] is not None else 1500.0
        first_doubler = any(l.startswith('profile_type = verifdoubler') for l in lines)
        want = 2.0 * (T0 + 50.0) if first_doubler else 2.0 * T0 + 50.0      # the first mixin listed is applied last
        try:
            tp.initialize_profile(None, 3, np.array([1e5, 1e3, 1e1]))
            gotT = np.asarray(tp.profile, dtype=float)
            if gotT.shape != (3,) or not close(gotT, want * np.ones(3), rtol=1e-12):
                out.fail('mixin-order@%s' % ('doubler-first' if first_doubler else 'add50-first'),
                         'T=%r gives %r, documented evaluation order gives %r' % (T0, gotT[:1], want))
        except Exception as e_:                                # noqa
            out.fail('mixin-order@raises:%s' % type(e_).__name__, str(e_)[:200])
    if run_cli:
        check_cli(out, c, tmp, par, model)
    return bool(nondefault >= 3 and sections >= 3)


def _same_default(v, d):
    try:
        if isinstance(d, (list, tuple, np.ndarray)) or isinstance(v, (list, tuple, np.ndarray)):
            return list(v) == list(d)
        return v == d or (v is None and d is None)
    except Exception:
        return False


def check_cli(out, c, tmp, par, lib_model):
    import h5py
    from taurex import taurex as prog
    outfile = os.path.join(tmp, 'out.h5')
    specfile = os.path.join(tmp, 'spec.dat')
    # library side: the model the parser built, run through the public API
    with np.errstate(all='ignore'):
        cut(out, 'library-build', lib_model.build)
        lib = cut(out, 'library-model', lib_model.model)
    want = np.array(lib[1], dtype=float, copy=True)
    grid = np.array(lib[0], dtype=float, copy=True)
    # what the file's [Binning] section makes of that result, through the library: the program must store and save the same
    from taurex.parameter import ParameterParser
    pp_ = ParameterParser()
    pp_.read(par)
    lib_b = cut(out, 'generate_binning', pp_.generate_binning)
    exp_grid, exp_spec = grid, want
    if isinstance(lib_b, tuple):
        with np.errstate(all='ignore'):
            rb_ = cut(out, 'library-bindown', lib_b[0].bindown, grid.copy(), want.copy())
        exp_grid, exp_spec = np.asarray(rb_[0], dtype=float), np.asarray(rb_[1], dtype=float)
    synth.reset_world()
    argv = sys.argv
    sys.argv = ['taurex', '-i', par, '-o', outfile, '-S', specfile]
    try:
        with contextlib.redirect_stdout(io.StringIO()), contextlib.redirect_stderr(io.StringIO()), np.errstate(all='ignore'):
            cut(out, 'cli-main', prog.main)
    finally:
        sys.argv = argv
        import logging
        logging.disable(logging.CRITICAL)
    out.applies('cli-spectrum')
    got = np.loadtxt(specfile, ndmin=2)
    btag = ',binning=%s' % c['cli_binning'] if c.get('cli_binning') else ''
    nan_ok = lambda a_, b_: close(np.where(np.isnan(a_) & np.isnan(b_), 0.0, a_), np.where(np.isnan(a_) & np.isnan(b_), 0.0, b_), rtol=1e-9, atol=1e-300)   # noqa
    if got.shape != (len(exp_grid), 4) or not close(got[:, 0], 10000.0 / exp_grid, rtol=1e-12) or not nan_ok(got[:, 1], exp_spec):
        out.fail('cli-spectrum@-S' + btag, 'saved spectrum differs from the library result (%s rows, library %d)' % (got.shape, len(exp_grid)))
    with h5py.File(outfile, 'r') as f:
        ns = f['Output']['Spectra']['native_spectrum'][...]
        ng = f['Output']['Spectra']['native_wngrid'][...]
        mt = f['ModelParameters']['model_type'][()]
        bg = np.asarray(f['Output']['Spectra']['binned_wngrid'][...], dtype=float) if 'binned_wngrid' in f['Output']['Spectra'] else None
        bsp = np.asarray(f['Output']['Spectra']['binned_spectrum'][...], dtype=float) if 'binned_spectrum' in f['Output']['Spectra'] else None
    if c.get('cli_binning') and (bsp is not None or isinstance(lib_b, tuple)):
        out.applies('cli-binning')
        if bsp is None or bsp.shape != exp_spec.shape or not nan_ok(bsp, exp_spec) or (bg is not None and not close(bg, exp_grid, rtol=1e-12)):
            out.fail('cli-binning@-o' + btag, 'stored binned spectrum / grid are not what the [Binning] section yields through the library')
    mt = mt.decode() if isinstance(mt, bytes) else mt
    if not np.array_equal(ng, grid) or not close(ns, want, rtol=1e-9, atol=1e-300) or mt != type(lib_model).__name__:
        out.fail('cli-spectrum@-o', 'stored spectrum / model type differ from the library result')


# ---------------------------------------------------------------------------------------------------
# [Observation] / [Binning] / [Instrument] / [Optimizer] / [Fitting] / [Derive] sections
def _manual_grid(kind, lo, hi, n, res):
    """reference wavenumber grid for a manual [Binning] section, from the documentation: N equally (log-)
    spaced points from start to end in wavelength (um) or wavenumber (cm-1); returned ascending in wavenumber"""
    if kind in ('wavelength_grid', 'wavenumber_grid'):
        pts = [lo + (hi - lo) * i / (n - 1) for i in range(n)]
    else:
        pts = [lo * (hi / lo) ** (i / (n - 1)) for i in range(n)]
    if 'wavelength' in kind:
        pts = sorted(10000.0 / x for x in pts)
    return np.array(pts)


def optimizer_classes():
    from taurex.parameter.classfactory import ClassFactory
    from taurex.instruments.snr import SNRInstrument
    ks = set(ClassFactory().optimizerKlasses) | {SNRInstrument}
    allk = set()
    for k in ks:
        for b in k.__mro__:
            if b.__module__.startswith('taurex.') and '__init__' in b.__dict__:
                allk.add(b)
    return sorted(allk, key=lambda k: k.__name__)


def check_retrieval(out, c, tmp):
    from taurex.parameter import ParameterParser
    from taurex.binning import FluxBinner, SimpleBinner
    from taurex.optimizer.nestle import NestleOptimizer
    from vlib import ref
    synth.reset_world()
    W = write_data(c, tmp)
    lines, _ = build_par(c, tmp, W)
    if c['family'] == 'transmission' and 'SimpleClouds' not in c['contribs'] and 'ThickClouds' not in c['contribs']:
        lines += ['    [[SimpleClouds]]']
    forms = c['forms']
    fi = [0]

    def num(x):
        fi[0] += 1
        return fmt_num(x, forms[fi[0] % len(forms)])

    def boolean(b):
        return (BOOLTRUE if b else BOOLFALSE)[c['boolform']]
    wn = W.wn
    lo_wn, hi_wn = float(wn[0]), float(wn[-1])
    # ---- observation file (rows in a drawn order)
    obs_rows = None
    if c['obs']:
        n = c['obs_rows']
        cen = np.linspace(lo_wn + 0.1 * (hi_wn - lo_wn), hi_wn - 0.1 * (hi_wn - lo_wn), n)
        wl = 10000.0 / cen
        width = np.array(c['obs_wf'][:n]) * (10000.0 / cen[0] - 10000.0 / cen[1]) * 0.5
        rows = np.column_stack([wl, c['obs_vals'][:n], c['obs_errs'][:n], width])
        if c['obs'] == 'file3':
            rows = rows[:, :3]
        perm = [i for i in c['obs_perm'] if i < n]
        obs_rows = rows
        obsfile = os.path.join(tmp, 'obs.dat')
        np.savetxt(obsfile, rows[perm], fmt='%.17e')
        lines += ['', '[Observation]', 'observed_spectrum = %s' % obsfile]
    # ---- binning
    binning = c['binning']
    if binning == 'observed' and not c['obs']:
        binning = 'native'
    want_grid = None
    if binning:
        lines += ['', '[Binning]', 'bin_type = %s' % binning]
        if binning == 'manual':
            a, b = c['bin_span']
            kind = c['bin_kind']
            lo = lo_wn + a * (hi_wn - lo_wn)
            hi = lo_wn + b * (hi_wn - lo_wn)
            if 'wavelength' in kind:
                lo, hi = 10000.0 / hi, 10000.0 / lo
            if kind == 'wavelength_res' and math.log(hi / lo) < 4.0 / c['bin_res']:
                kind = 'wavelength_grid'            # a resolution grid needs room for a few bins
            if kind == 'wavelength_res':
                lines.append('%s = %s, %s, %s' % (kind, num(lo), num(hi), num(c['bin_res'])))
            else:
                lines.append('%s = %s, %s, %s' % (kind, num(lo), num(hi), num(c['bin_n'])))
                want_grid = _manual_grid(kind, lo, hi, c['bin_n'], None)
            if c['accurate'] is not None:
                lines.append('accurate = %s' % boolean(c['accurate']))
    # ---- instrument
    if c['instrument']:
        lines += ['', '[Instrument]', 'instrument = %s' % c['instrument']]
        if c['snr'] is not None:
            lines.append('SNR = %s' % num(c['snr']))
        if c['num_obs'] is not None:
            lines.append('num_observations = %d' % c['num_obs'])
    # ---- optimizer
    osel = c['optimizer']
    okeys_all = {'nestle': ['num_live_points', 'tol', 'method', 'sigma_fraction'],
                 'multinest': ['num_live_points', 'max_iterations', 'evidence_tolerance', 'search_multi_modes', 'importance_sampling',
                               'maximum_modes', 'resume', 'multinest_prefix', 'sigma_fraction']}[osel]
    oexp = {}
    lines += ['', '[Optimizer]', 'optimizer = %s' % (osel if c['oneg'] != 'unknown-selector' else 'no-such-sampler')]
    for k in okeys_all:
        v = c['okeys'][k]
        if v is None:
            continue
        if isinstance(v, bool):
            lines.append('%s = %s' % (k, boolean(v)))
            oexp[k] = v
        elif isinstance(v, str):
            lines.append('%s = %s' % (k, v))
            oexp[k] = v
        else:
            lines.append('%s = %s' % (k, num(v)))
            oexp[k] = float(v)
    if osel == 'multinest':
        lines.append('multi_nest_path = %s' % os.path.join(tmp, 'chains'))
        oexp['multi_nest_path'] = os.path.join(tmp, 'chains')
    if c['oneg'] == 'unknown-key':
        lines.append('not_a_sampler_option = 3')
    # ---- fitting / derive
    # resolve the drawn indices against the parameters this input file's model will have (a throw-away build)
    pp0 = ParameterParser()
    tmp_par = os.path.join(tmp, 'names.par')
    with open(tmp_par, 'w') as f:
        f.write('\n'.join(lines) + '\n')
    cut(out, 'parser.read', pp0.read, tmp_par)
    cut(out, 'setup_globals', pp0.setup_globals)
    m0 = cut(out, 'generate_model', pp0.generate_appropriate_model)
    with np.errstate(all='ignore'):
        cut(out, 'library-build', m0.build)
    def _usable(nm):
        t_ = m0.fittingParameters[nm]
        v0 = t_[2]()
        if t_[4] == 'log' and min(t_[6]) <= 0:
            return False            # e.g. the Lee haze parameters declare log mode with bounds [-1, 1]: no default prior exists
        return isinstance(v0, (float, int, np.floating)) and math.isfinite(v0) and v0 > 0
    # parameters that currently hold a positive number (an unset cloud bound is None / -1: fitting it in log space
    # or scaling its value by a factor means nothing)
    avail = sorted(nm for nm in m0.fittingParameters if _usable(nm))
    fitting, seen = [], set()
    for fp in c['fitting']:
        nm = 'no_such_parameter' if fp['name'] < 0 else avail[fp['name'] % len(avail)]
        if nm in seen or all(fp[k] is None for k in ('fit', 'bounds', 'mode', 'factor', 'prior')):
            continue                # a parameter the file does not mention keeps its defaults
        seen.add(nm)
        fp = dict(fp, name=nm)
        if fp['mode'] and fp['mode'].lower() == 'log' and fp['bounds'] is None and nm in m0.fittingParameters \
                and min(m0.fittingParameters[nm][6]) <= 0:
            fp['mode'] = None           # log mode over default bounds that reach zero or below has no prior: not a legal request
        fitting.append(fp)
    synth.reset_world()
    flines = []
    for fp in fitting:
        if fp['fit'] is not None:
            flines.append('%s:fit = %s' % (fp['name'], boolean(fp['fit'])))
        if fp['bounds'] is not None:
            flines.append('%s:bounds = %s, %s' % (fp['name'], num(fp['bounds'][0]), num(fp['bounds'][1])))
        if fp['mode'] is not None:
            flines.append('%s:mode = %s' % (fp['name'], fp['mode']))
        if fp['factor'] is not None:
            flines.append('%s:factor = %s, %s' % (fp['name'], num(fp['factor'][0]), num(fp['factor'][1])))
        if fp['prior'] is not None:
            flines.append('%s:prior = "%s"' % (fp['name'], fp['prior']))
    if flines:
        lines += ['', '[Fitting]'] + flines
    if c['derive_mu'] is not None:
        lines += ['', '[Derive]', 'mu:compute = %s' % boolean(c['derive_mu'])]
    par = os.path.join(tmp, 'input.par')
    with open(par, 'w') as f:
        f.write('\n'.join(lines) + '\n')
    out.cls('obs:%s' % c['obs'])
    out.cls('binning:%s' % binning)
    out.cls('optimizer:%s' % osel)
    pp = ParameterParser()
    cut(out, 'parser.read', pp.read, par)
    cut(out, 'setup_globals', pp.setup_globals)
    # ---- [Observation]: the file's rows, whatever their order
    obs = cut(out, 'generate_observation', pp.generate_observation)
    out.applies('observation-section')
    if c['obs']:
        order = np.argsort(10000.0 / obs_rows[:, 0])
        if type(obs).__name__ != 'ObservedSpectrum' or not np.array_equal(obs.spectrum, obs_rows[order, 1]) \
                or not np.array_equal(obs.errorBar, obs_rows[order, 2]) or not close(obs.wavenumberGrid, 10000.0 / obs_rows[order, 0], rtol=1e-14):
            out.fail('observation-section@observed_spectrum', 'object built from [Observation] does not hold the rows of the file')
    elif obs is not None:
        out.fail('observation-section@absent', 'no [Observation] section but %r was built' % (obs,))
    # ---- [Binning]
    got_b = cut(out, 'generate_binning', pp.generate_binning)
    out.applies('binning-section')
    if binning in (None, 'native', 'observed'):
        if got_b != binning:
            out.fail('binning-section@%s' % binning, 'generate_binning returned %r' % (got_b,))
    else:
        ok = isinstance(got_b, tuple) and len(got_b) == 2
        if ok:
            binner, grid = got_b
            want_cls = FluxBinner if c['accurate'] else SimpleBinner
            if type(binner) is not want_cls:
                out.fail('binning-section@accurate=%s' % c['accurate'], 'binner class %s, documented %s' % (type(binner).__name__, want_cls.__name__))
            grid = np.asarray(grid, dtype=float)
            if want_grid is not None:
                if grid.shape != want_grid.shape or not close(grid, want_grid, rtol=1e-12):
                    out.fail('binning-section@grid:%s' % kind, 'grid %s, documented %s' % (grid[:4], want_grid[:4]))
            else:
                wl = np.sort(10000.0 / grid)
                lo_, hi_ = 10000.0 / (lo_wn + c['bin_span'][1] * (hi_wn - lo_wn)), 10000.0 / (lo_wn + c['bin_span'][0] * (hi_wn - lo_wn))
                R = c['bin_res']
                bad = len(wl) < 1 or np.any(np.diff(grid) <= 0) or wl[0] < lo_ * (1 - 1e-12) or wl[-1] > hi_ * (1 + 2.0 / R)
                if not bad and len(wl) > 2:
                    ratio = wl[1:] / wl[:-1]
                    bad = not close(ratio, np.full(len(ratio), (R + 0.5) / (R - 0.5)), rtol=1e-9)
                if bad:
                    out.fail('binning-section@grid:wavelength_res', 'resolution grid not an ascending constant-R grid inside the range: %s' % wl[:5])
            if not np.array_equal(np.asarray(binner._wngrid, dtype=float), grid):
                out.fail('binning-section@binner-grid', 'binner built on another grid than the one returned')
        else:
            out.fail('binning-section@manual', 'generate_binning returned %r' % (got_b,))
    # ---- [Optimizer] and [Instrument]: selector -> class, keys -> constructor, defaults otherwise
    with Recorder(optimizer_classes()) as rec:
        try:
            opt = pp.generate_optimizer()
            ofail = None
        except Exception as e:                          # noqa
            opt, ofail = None, e
        try:
            inst = pp.generate_instrument(binner=got_b[0] if isinstance(got_b, tuple) else None)
            ifail = None
        except Exception as e:                          # noqa
            inst, ifail = None, e
    if c['oneg']:
        out.cls('negative')
        out.applies('unknown-is-error')
        if ofail is None:
            out.fail('unknown-is-error@%s,Optimizer' % c['oneg'], 'the [Optimizer] section was accepted')
    else:
        out.applies('keys-reach-constructor')
        want_cls = {'nestle': 'NestleOptimizer', 'multinest': 'MultiNestOptimizer'}[osel]
        if ofail is not None:
            out.fail('builds@optimizer:%s@raises:%s' % (osel, type(ofail).__name__), repr(ofail))
        elif type(opt).__name__ != want_cls:
            out.fail('keys-reach-constructor@optimizer-class', '%s built %s' % (osel, type(opt).__name__))
        else:
            calls = [x for x in rec.calls if x[0] == want_cls]
            eff = calls[-1][3] if calls else {}
            sig = inspect.signature(type(opt).__init__)
            for k, v in oexp.items():
                if k not in eff or not values_equal(eff[k], v):
                    out.fail('keys-reach-constructor@%s.%s' % (want_cls, k), '%s=%r written, constructor received %r' % (k, v, eff.get(k)))
            for k, v in eff.items():
                pdef = sig.parameters.get(k)
                if k not in oexp and pdef is not None and pdef.default is not inspect.Parameter.empty and not _same_default(v, pdef.default):
                    out.fail('keys-reach-constructor@%s.%s,default' % (want_cls, k), 'omitted, constructor received %r not %r' % (v, pdef.default))
    out.applies('instrument-section')
    if ifail is not None:
        out.fail('builds@instrument@raises:%s' % type(ifail).__name__, repr(ifail))
    elif c['instrument'] is None:
        if inst is not None:
            out.fail('instrument-section@absent', 'no [Instrument] section but %r was built' % (inst,))
    else:
        calls = [x for x in rec.calls if x[0] == 'SNRInstrument']
        if not isinstance(inst, tuple) or type(inst[0]).__name__ != 'SNRInstrument' or not calls:
            out.fail('instrument-section@class', 'instrument=%s built %r' % (c['instrument'], inst))
        else:
            eff = calls[-1][3]
            if not values_equal(eff.get('SNR'), c['snr'] if c['snr'] is not None else 10):
                out.fail('instrument-section@SNR', 'SNR written %r, constructor received %r' % (c['snr'], eff.get('SNR')))
            if not values_equal(inst[1], c['num_obs'] if c['num_obs'] is not None else 1):
                out.fail('instrument-section@num_observations', 'num_observations written %r, returned %r' % (c['num_obs'], inst[1]))
    # ---- [Fitting] / [Derive] applied to an optimizer == the same settings made through the API
    model = cut(out, 'generate_model', pp.generate_appropriate_model, obs=obs)
    with np.errstate(all='ignore'):
        cut(out, 'library-build', model.build)
    if obs is None:
        from taurex.data.spectrum.array import ArraySpectrum
        cen = np.linspace(lo_wn, hi_wn, 4)
        obs = ArraySpectrum(np.column_stack([10000.0 / cen, [0.01] * 4, [1e-4] * 4]))
    known_names = set(model.fittingParameters)
    unknown = [fp['name'] for fp in fitting if fp['name'] not in known_names and
               any(fp[k] is not None for k in ('fit', 'bounds', 'mode', 'factor', 'prior'))]
    o1 = NestleOptimizer(observed=obs, model=model)
    out.applies('fitting-section')
    try:
        pp.setup_optimizer(o1)
        sfail = None
    except Exception as e:                              # noqa
        sfail = e
    if unknown:
        out.cls('fitting:unknown-name')
        out.applies('unknown-is-error')
        if sfail is None:
            out.fail('unknown-is-error@unknown-name,Fitting', 'fitting an unknown parameter %s was accepted' % unknown)
    elif sfail is not None:
        out.fail('fitting-section@raises:%s' % type(sfail).__name__, repr(sfail))
    else:
        from taurex.parameter.factory import create_prior
        import copy
        m2 = copy.deepcopy(model)
        o2 = NestleOptimizer(observed=obs, model=m2)
        for fp in fitting:
            nm = fp['name']
            if nm not in known_names:
                continue
            # a parameter named in [Fitting] is fitted only if its fit option says so
            (o2.enable_fit if fp['fit'] else o2.disable_fit)(nm)
            if fp['factor'] is not None:
                o2.set_factor_boundary(nm, list(fp['factor']))
            if fp['bounds'] is not None:
                o2.set_boundary(nm, list(fp['bounds']))
            if fp['mode'] is not None:
                o2.set_mode(nm, fp['mode'].lower())
            if fp['prior'] is not None:
                o2.set_prior(nm, create_prior(fp['prior']))
        if c['derive_mu'] is not None:
            (o2.enable_derived if c['derive_mu'] else o2.disable_derived)('mu')
        cut(out, 'compile_params@file', o1.compile_params)
        o2.compile_params()
        a = (list(o1.fit_names), [type(p).__name__ for p in o1.fitting_priors], [p.params() for p in o1.fitting_priors], list(o1.derived_names))
        b = (list(o2.fit_names), [type(p).__name__ for p in o2.fitting_priors], [p.params() for p in o2.fitting_priors], list(o2.derived_names))
        def view(o, attr):
            # a log-space prior over a parameter whose (unused) linear bounds are not positive has no log10 boundaries: the
            # view raises for the file-built and the API-built optimizer alike (positive bounds are C07's stated domain)
            try:
                return np.array(getattr(o, attr), dtype=float)
            except ValueError:
                out.cls('fitting:log-prior-over-nonpositive-bounds')
                return np.array([np.nan])
        fb1, fb2 = view(o1, 'fit_boundaries'), view(o2, 'fit_boundaries')
        same_fb = (np.isnan(fb1).all() and np.isnan(fb2).all()) if (np.isnan(fb1).any() or np.isnan(fb2).any()) else close(fb1, fb2, rtol=1e-12)
        if a != b or not same_fb \
                or not close(np.array(o1.fit_values, dtype=float), np.array(o2.fit_values, dtype=float), rtol=1e-12):
            out.fail('fitting-section@differs-from-api', 'file: %s %s; API: %s %s' % (a[:2], fb1.tolist(), b[:2], fb2.tolist()))
        # what the file says, directly: fit flags and bounds
        for fp in fitting:
            nm = fp['name']
            if nm not in known_names:
                continue
            fitted = [n_ for n_ in o1.fit_names if n_ in (nm, 'log_' + nm)]
            if fp['fit'] is True and not fitted:
                out.fail('fitting-section@fit-flag', '%s:fit = true but it is not fitted (%s)' % (nm, list(o1.fit_names)))
            if fp['fit'] is False and fitted:
                out.fail('fitting-section@fit-flag', '%s:fit = false but it is fitted' % nm)
            if fitted and fp['prior'] is None and fp['bounds'] is not None and fp['factor'] is None:
                # bounds written in the file are the bounds of the default prior (in the space of the mode)
                i = list(o1.fit_names).index(fitted[0])
                lo_b, hi_b = sorted(fp['bounds'])
                if fitted[0].startswith('log_'):
                    lo_b, hi_b = math.log10(lo_b), math.log10(hi_b)
                if not close(sorted(o1.fit_boundaries[i]), [lo_b, hi_b], rtol=1e-12):
                    out.fail('fitting-section@bounds', '%s:bounds = %s, reported %s' % (nm, fp['bounds'], o1.fit_boundaries[i]))
            if fitted and fp['prior'] is None and fp['mode'] is not None:
                if fitted[0].startswith('log_') != (fp['mode'].lower() == 'log'):
                    out.fail('fitting-section@mode', '%s:mode = %s, fitted as %s' % (nm, fp['mode'], fitted[0]))
        if len(o1.fit_names) >= 2:
            out.cls('fitting:>=2-fitted')
    return bool(len([l for l in lines if '=' in l]) >= 12)


# ---------------------------------------------------------------------------------------------------
# the command-line program in retrieval mode (-R), sampler replaced by the nestle double
def check_cli_retrieval(out, c, tmp):
    import h5py
    import nestle
    from taurex import taurex as prog
    from taurex.parameter import ParameterParser
    from vlib import doubles
    from vlib.props.c05 import overlap_mean, midpoint_widths
    synth.reset_world()
    W = write_data(c, tmp)
    c = dict(c, temp='isothermal', composite=None, negative=None)
    c['gases'] = [dict(g, type='constant') for g in c['gases']]
    lines, _ = build_par(c, tmp, W)
    wn = W.wn
    nb = 3
    cen = np.linspace(wn[0] + 0.2 * (wn[-1] - wn[0]), wn[-1] - 0.2 * (wn[-1] - wn[0]), nb)
    wl = 10000.0 / cen
    dwl = 0.6 * (wl[0] - wl[1]) * np.ones(nb)
    rows = np.column_stack([wl, [1e-3, 1.1e-3, 0.9e-3], [1e-5, 2e-5, 3e-5], dwl])
    obsfile = os.path.join(tmp, 'obs.dat')
    np.savetxt(obsfile, rows[[2, 0, 1]], fmt='%.17e')
    rnom = c['plkeys']['planet_radius'] if c['plkeys']['planet_radius'] is not None else 1.0
    lines += ['', '[Observation]', 'observed_spectrum = %s' % obsfile, '', '[Optimizer]', 'optimizer = nestle', 'num_live_points = 5',
              '', '[Fitting]', 'planet_radius:fit = True', 'planet_radius:bounds = %r, %r' % (0.6 * rnom, 1.4 * rnom)]
    fit_T = c['boolform'] % 2 == 0
    if fit_T:
        lines += ['T:fit = True', 'T:bounds = 400.0, 1900.0']
    par = os.path.join(tmp, 'input.par')
    with open(par, 'w') as f:
        f.write('\n'.join(lines) + '\n')
    us = [list(u_) for u_ in c['cube']]
    wts = np.array(c['cube_w'], dtype=float) + 0.01 * np.arange(len(us))
    wts = wts / wts.sum()
    delivered = {}

    def result(which, cap):
        smp = np.array([np.asarray(cap.prior(np.array(u_[:cap.ndim], dtype=float)), dtype=float) for u_ in us])
        delivered['samples'], delivered['ndim'] = smp, cap.ndim
        return nestle.Result(samples=smp.copy(), weights=wts.copy(), logz=-3.0, logzerr=0.1, h=1.0, niter=len(wts), ncall=10,
                             logl=np.zeros(len(wts)), logvol=np.zeros(len(wts)))
    outfile = os.path.join(tmp, 'out.h5')
    specfile = os.path.join(tmp, 'spec.dat')
    argv = sys.argv
    sys.argv = ['taurex', '-i', par, '-o', outfile, '-S', specfile, '-R']
    import random
    random.seed(777)
    try:
        with doubles.sampler_doubles(result=result):
            with contextlib.redirect_stdout(io.StringIO()), contextlib.redirect_stderr(io.StringIO()), np.errstate(all='ignore'):
                cut(out, 'cli-main@retrieval', prog.main)
    finally:
        sys.argv = argv
        import logging
        logging.disable(logging.CRITICAL)
    out.applies('cli-retrieval')
    if 'samples' not in delivered:
        out.fail('cli-retrieval@sampler-not-called', 'the program finished without calling the sampler')
        return False
    smp = delivered['samples']
    want_dim = 2 if fit_T else 1
    if delivered['ndim'] != want_dim:
        out.fail('cli-retrieval@dimensions', 'the [Fitting] section fits %d parameter(s), the sampler was given %d' % (want_dim, delivered['ndim']))
        return False
    best = smp[int(np.argmax(wts))]
    # the library side: the same file built through the parser, set to the MAP by name, binned with the reference
    synth.reset_world()
    pp = ParameterParser()
    pp.read(par)
    pp.setup_globals()
    m2 = pp.generate_appropriate_model()
    with np.errstate(all='ignore'):
        m2.build()
        m2['planet_radius'] = float(best[0])
        if fit_T:
            m2['T'] = float(best[1])
        g, s_, _, _ = m2.model()
    g, s_ = np.asarray(g, dtype=float), np.asarray(s_, dtype=float)
    own = np.sort(cen)
    oww = (10000.0 * dwl / wl ** 2)[np.argsort(cen)]
    _, nw = midpoint_widths(g)
    want = np.array([overlap_mean(g - nw / 2, g + nw / 2, s_, own[i] - oww[i] / 2, own[i] + oww[i] / 2)[0] for i in range(nb)], dtype=float)
    got = np.loadtxt(specfile, ndmin=2)
    if got.shape != (nb, 4) or not close(got[:, 0], 10000.0 / own, rtol=1e-12) or not close(got[:, 1], want, rtol=1e-9, atol=1e-300):
        out.fail('cli-retrieval@-S', 'saved spectrum is not the MAP model binned to the observation (max rel %.2e)'
                 % (maxrel(got[:, 1], want) if got.shape == (nb, 4) else -1))
    with h5py.File(outfile, 'r') as f:
        try:
            sol = f['Output']['Solutions']['solution0']
            tr = np.asarray(sol['tracedata'][...], dtype=float)
            ww = np.asarray(sol['weights'][...], dtype=float)
            names = [x.decode() if isinstance(x, bytes) else str(x) for x in np.asarray(f['Optimizer']['fit_parameter_names'][()]).ravel()]
            bs = np.asarray(sol['Spectra']['binned_spectrum'][...], dtype=float)
        except KeyError as e:
            out.fail('cli-retrieval@-o,missing', 'output file lacks %s' % e)
            return True
        if not np.array_equal(tr, smp) or not np.array_equal(ww, wts):
            out.fail('cli-retrieval@-o,samples', 'stored traces / weights are not what the sampler delivered')
        if names != ['planet_radius'] + (['T'] if fit_T else []):
            out.fail('cli-retrieval@-o,names', 'stored fitted names %s' % names)
        if not close(bs, want, rtol=1e-9, atol=1e-300):
            out.fail('cli-retrieval@-o,spectrum', 'stored solution spectrum is not the MAP model binned to the observation')
    return True


def check(case):
    out = Outcome()
    part = case['part']
    out.cls('part:' + part)
    tmp = tempfile.mkdtemp(prefix='verif_c15_')
    try:
        if part == 'selectors':
            out.nontrivial = bool(check_selectors(out))
        elif part == 'retrieval':
            out.nontrivial = bool(check_retrieval(out, case, tmp))
        elif part == 'cli-retrieval':
            out.nontrivial = bool(check_cli_retrieval(out, case, tmp))
        else:
            out.nontrivial = bool(check_sections(out, case, tmp, run_cli=(part == 'cli')))
    except CutError:
        pass
    finally:
        synth.reset_world()
        shutil.rmtree(tmp, ignore_errors=True)
        from taurex.parameter.classfactory import ClassFactory
        if ClassFactory().extension_paths:
            # a folder named under [Global] stays with the (process-wide) class factory: forget it
            ClassFactory().extension_paths = []
            _FACTORY_RELOADED.append(True)
    return out
