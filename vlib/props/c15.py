"""C15 — an input file builds exactly the documented object graph."""
import contextlib
import inspect
import io
import math
import os
import pickle
import shutil
import sys
import tempfile
import numpy as np
from hypothesis import strategies as st

from vlib.runner import Outcome, cut, CutError, close, maxrel
from vlib import synth, strategies as S

ID = 'C15'
TITLE = 'input files'
CASES = {'quick': 150, 'thorough': 12000}
SHARDS = {'quick': 1, 'thorough': 16}
RULE = ('Generated: well-formed input files over the built-in sections: a temperature profile (isothermal / guillot '
        '/ npoint), pressure, planet, star, chemistry with 1-3 gases of type constant / twolayer / twopoint, model '
        '(transmission / emission / directimage) with contribution sub-sections; each documented constructor key is '
        'either given (numbers as ints / floats / exponents, booleans as true / yes / False / no, comma lists) or '
        'omitted; optionally one unknown selector or one unknown key is injected; optionally a composite '
        '"mixin+base" selector or a custom python file is used; a third of the cases run the command-line program '
        'in-process on the file.  The finite table of documented selectors is checked exhaustively in every case '
        'of the selectors part.  Non-trivial = >=3 non-default keys across >=3 sections; distinct by case hash.')
ASSUMPTIONS = [
    '"documented" = doc/source/user/taurex/*.rst in the working tree; the selector table is transcribed in this module and each entry is checked to occur in the rst text and to resolve to exactly one discovered class of its family',
    'constructor arguments are observed by wrapping __init__ of the built-in classes from the harness (no repository change); numbers must arrive equal in value (int vs float is not distinguished, the parser produces floats), booleans as bool, comma lists as lists of floats or strings',
    'optimizers needing absent libraries (polychord, dypolychord) and plugin components (ace, BHMie) cannot be discovered here and are not judged',
    'CLI differential: taurex.taurex.main() run in-process with -i -o -S on files the harness wrote (pickle cross-sections, pickle CIA); spectrum compared with the same components built through the library, rtol 1e-9',
]
REQUIRED = {'part:sections': 0.2, 'part:cli': 0.08, 'part:selectors': 0.01, 'negative': 0.08}

# family -> (ClassFactory attribute, rst file, {selector: class name})
DOCUMENTED = {
    'temperature': ('temperatureKlasses', 'temperature.rst', {'isothermal': 'Isothermal', 'guillot2010': 'Guillot2010', 'guillot': 'Guillot2010',
                                                                'npoint': 'NPoint', 'rodgers': 'Rodgers2000', 'file': 'TemperatureFile'}),
    'pressure': ('pressureKlasses', 'pressure.rst', {'simple': 'SimplePressureProfile', 'hydrostatic': 'SimplePressureProfile'}),
    'chemistry': ('chemistryKlasses', 'chemistry.rst', {'taurex': 'TaurexChemistry', 'free': 'TaurexChemistry', 'file': 'ChemistryFile'}),
    'gas': ('gasKlasses', 'chemistry.rst', {'constant': 'ConstantGas', 'twopoint': 'TwoPointGas', 'twolayer': 'TwoLayerGas'}),
    'planet': ('planetKlasses', 'planet.rst', {'simple': 'Planet'}),
    'star': ('starKlasses', 'star.rst', {'blackbody': 'BlackbodyStar', 'phoenix': 'PhoenixStar'}),
    'model': ('modelKlasses', 'models.rst', {'transmission': 'TransmissionModel', 'emission': 'EmissionModel', 'directimage': 'DirectImageModel'}),
    'contribution': ('contributionKlasses', 'models.rst', {'Absorption': 'AbsorptionContribution', 'CIA': 'CIAContribution',
                                                          'Rayleigh': 'RayleighContribution', 'SimpleClouds': 'SimpleCloudsContribution',
                                                          'ThickClouds': 'SimpleCloudsContribution', 'LeeMie': 'LeeMieContribution',
                                                          'FlatMie': 'FlatMieContribution'}),
    'optimizer': ('optimizerKlasses', 'optimizer.rst', {'nestle': 'NestleOptimizer', 'multinest': 'MultiNestOptimizer'}),
    'instrument': ('instrumentKlasses', 'instrument.rst', {'snr': 'SNRInstrument'}),
}
PRIOR_NAMES = ['Uniform', 'LogUniform', 'Gaussian', 'LogGaussian']
def _docdir():
    # documentation of the tree that is actually imported (normally /repo; a scratch worktree when
    # a seeded change is evaluated with PYTHONPATH pointing at it)
    import taurex
    root = os.path.dirname(os.path.dirname(os.path.abspath(taurex.__file__)))
    return os.path.join(root, 'doc', 'source', 'user', 'taurex')


DOCDIR = _docdir()

NUMFORM = st.sampled_from(['repr', 'exp', 'int', 'repr'])
BOOLTRUE = ['true', 'yes', 'True', 'YES']
BOOLFALSE = ['false', 'no', 'False', 'NO']


def _opt(strategy):
    """a key is given (value) or omitted (None)"""
    return st.one_of(st.none(), strategy)


@st.composite
def _case(draw):
    part = draw(st.sampled_from(['selectors', 'sections', 'cli', 'sections', 'cli', 'sections']))
    c = {'part': part}
    if part == 'selectors':
        c['case_variant'] = draw(st.integers(0, 3))
        return c
    f = st.floats
    c['family'] = draw(st.sampled_from(['transmission', 'emission', 'directimage']))
    c['temp'] = draw(st.sampled_from(['npoint', 'guillot', 'isothermal', 'guillot2010']))
    c['tkeys'] = {'T': draw(_opt(f(300, 2500))), 'T_irr': draw(_opt(f(800, 2500))), 'kappa_irr': draw(_opt(f(1e-3, 0.1))),
                  'kappa_v1': draw(_opt(f(1e-3, 0.1))), 'kappa_v2': draw(_opt(f(1e-3, 0.1))), 'alpha': draw(_opt(f(0.1, 0.9))),
                  'T_int': draw(_opt(f(50, 500))), 'T_surface': draw(_opt(f(800, 2500))), 'T_top': draw(_opt(f(300, 1500))),
                  'temperature_points': draw(_opt(st.lists(f(300, 2500), min_size=2, max_size=2))),
                  'smoothing_window': draw(_opt(st.integers(3, 40)))}
    c['pkeys'] = {'nlayers': draw(_opt(st.integers(3, 12))), 'atm_min_pressure': draw(_opt(f(1e-3, 1.0))), 'atm_max_pressure': draw(_opt(f(1e4, 1e7)))}
    c['plkeys'] = {'planet_mass': draw(_opt(f(0.5, 3.0))), 'planet_radius': draw(_opt(f(0.7, 1.6))), 'planet_distance': draw(_opt(f(0.01, 2.0))),
                   'impact_param': draw(_opt(f(0.0, 0.9))), 'orbital_period': draw(_opt(f(0.5, 20.0))), 'albedo': draw(_opt(f(0.0, 0.9))),
                   'transit_time': draw(_opt(f(1000, 9000)))}
    c['skeys'] = {'temperature': draw(_opt(f(3000, 9000))), 'radius': draw(_opt(f(0.3, 2.0))), 'distance': draw(_opt(f(1.0, 200.0))),
                  'magnitudeK': draw(_opt(f(5.0, 12.0))), 'mass': draw(_opt(f(0.3, 2.0))), 'metallicity': draw(_opt(f(0.5, 2.0)))}
    ngas = draw(st.integers(1, 3))
    c['gases'] = []
    for i in range(ngas):
        # twopoint is an open known finding (undiscoverable class): kept rare so the search goes on behind it
        gt = draw(st.sampled_from(['constant', 'twolayer'] * 5 + ['twopoint']))
        c['gases'].append({'type': gt, 'mix_ratio': draw(_opt(f(-8, -3))), 'mix_ratio_surface': draw(_opt(f(-6, -3))),
                           'mix_ratio_top': draw(_opt(f(-9, -5))), 'mix_ratio_P': draw(_opt(f(1.0, 4.0))),
                           'mix_ratio_smoothing': draw(_opt(st.integers(5, 40)))})
    c['ratio'] = draw(_opt(f(0.05, 0.4)))
    c['mkeys'] = {'new_path_method': draw(_opt(st.booleans())), 'ngauss': draw(_opt(st.integers(1, 6)))}
    c['contribs'] = draw(st.lists(st.sampled_from(['CIA', 'Rayleigh', 'SimpleClouds', 'ThickClouds', 'FlatMie', 'LeeMie']), max_size=3, unique=True))
    c['ckeys'] = {'clouds_pressure': draw(_opt(f(1.0, 5.0))), 'flat_mix_ratio': draw(_opt(f(-28, -22))), 'flat_bottomP': draw(_opt(f(3.0, 5.0))),
                  'flat_topP': draw(_opt(f(0.5, 2.0))), 'lee_mie_radius': draw(_opt(f(0.01, 2.0))), 'lee_mie_q': draw(_opt(f(1.0, 80.0))),
                  'lee_mie_mix_ratio': draw(_opt(f(-16, -8))), 'lee_mie_bottomP': draw(_opt(f(3.0, 5.0))), 'lee_mie_topP': draw(_opt(f(0.5, 2.0)))}
    c['forms'] = draw(st.lists(NUMFORM, min_size=12, max_size=12))
    c['boolform'] = draw(st.integers(0, 3))
    c['negative'] = draw(st.sampled_from([None, None, None, 'unknown-key', 'unknown-selector', 'unknown-contribution']))
    c['neg_where'] = draw(st.sampled_from(['Temperature', 'Pressure', 'Chemistry', 'Model', 'Gas', 'Contribution', 'Planet', 'Star']))
    c['composite'] = draw(st.sampled_from([None, None, None, 'mixin', 'custom']))
    c['tables'] = draw(st.lists(S.table(6, mag='mixed'), min_size=3, max_size=3))
    c['wn0'] = draw(f(300.0, 4000.0))
    c['dwn'] = draw(f(5.0, 300.0))
    return c


def strategy(tier):
    return _case()


# ---------------------------------------------------------------------------------------------------
def check_selectors(out):
    from taurex.parameter.classfactory import ClassFactory
    from taurex.parameter import factory
    cf = ClassFactory()
    for fam, (attr, rst, table) in DOCUMENTED.items():
        text = open(os.path.join(DOCDIR, rst)).read()
        klasses = list(getattr(cf, attr))
        for sel, cname in table.items():
            out.applies('selector-documented')
            if sel not in text:
                out.fail('selector-documented@%s:%s' % (fam, sel), 'harness table entry not found in %s' % rst)
            owners = []
            for k in klasses:
                try:
                    kws = k.input_keywords()
                except Exception:
                    continue
                if sel in kws:
                    owners.append(k.__name__)
            out.applies('selector-unique')
            if owners != [cname]:
                out.fail('selector-unique@%s:%s' % (fam, sel), 'selector %r of [%s] is claimed by %s, documented class %s' % (sel, fam, owners, cname))
    # ---- every key listed in a documented "Keywords" table is a constructor keyword of the documented class
    famof = {'temperature.rst': {'profile_type': 'temperature'}, 'pressure.rst': {'profile_type': 'pressure'},
             'chemistry.rst': {'chemistry_type': 'chemistry', 'gas_type': 'gas'}, 'star.rst': {'star_type': 'star'},
             'models.rst': {'contribution': 'contribution', 'model_type': 'model'}}
    for rst, fields in famof.items():
        for (field, sel), keys in doc_keys(rst).items():
            fam = fields.get(field)
            if fam is None:
                continue
            if rst == 'pressure.rst' and sel == 'custom':
                sel = 'simple'
            cname = DOCUMENTED[fam][2].get(sel)
            if cname is None:
                continue                # plugin components (ace, BHMie) are not part of this tree
            klass = [k for k in getattr(cf, DOCUMENTED[fam][0]) if k.__name__ == cname]
            if not klass:
                continue
            params = set(inspect.signature(klass[0].__init__).parameters)
            for key in keys:
                out.applies('documented-key-exists')
                if key not in params:
                    out.fail('documented-key-exists@%s.%s' % (cname, key), '%s documents key %r for %s=%s; %s takes %s'
                             % (rst, key, field, sel, cname, sorted(params - {'self'})))
    out.applies('prior-names')
    for pn in PRIOR_NAMES:
        for form in (pn, pn.lower(), pn.upper()):
            try:
                obj = factory.create_prior('%s()' % form)
                if type(obj).__name__ != pn:
                    out.fail('prior-names@' + pn, '%s() built %s' % (form, type(obj).__name__))
            except Exception as e:
                out.fail('prior-names@%s,raises' % pn, '%s() raised %s' % (form, type(e).__name__))
    out.applies('unknown-selector-is-error')
    for fn_name, arg in (('temp_factory', 'no-such-thing'), ('gas_factory', 'no-such-thing'), ('model_factory', 'no-such-thing'),
                         ('star_factory', 'no-such-thing'), ('pressure_factory', 'no-such-thing'), ('chemistry_factory', 'no-such-thing')):
        try:
            getattr(factory, fn_name)(arg)
            out.fail('unknown-selector-is-error@' + fn_name, 'unknown selector accepted')
        except Exception:
            pass
    return True


def doc_keys(rst):
    """{(selector field, selector): [keys]} from the 'Keywords' tables of an rst file"""
    import re
    lines = open(os.path.join(DOCDIR, rst)).read().split('\n')
    cur, inkw, res = None, False, {}
    for i, l in enumerate(lines):
        m = re.match(r'^``(\w+) ?= ?([\w+-]+)``', l)
        if m:
            cur, inkw = (m.group(1), m.group(2)), False
            continue
        m = re.match(r'^``\[\[(\w+)\]\]``', l)
        if m:
            cur, inkw = ('contribution', m.group(1)), False
            continue
        if i + 1 < len(lines) and re.match(r'^[-=~^]{3,}$', lines[i + 1]) and l.strip() and not l.startswith(('|', '+')):
            inkw = l.strip().lower() == 'keywords'
            continue
        m = re.match(r'^\| ``(\w+)``', l)
        if m and inkw and cur:
            res.setdefault(cur, []).append(m.group(1))
    return res


# ---------------------------------------------------------------------------------------------------
def fmt_num(x, form):
    if form == 'int' and float(x).is_integer():
        return str(int(x))
    if form == 'exp':
        return '%.17e' % x
    return repr(float(x))


class Recorder:
    """wraps __init__ of classes to record the arguments each constructor received"""

    def __init__(self, klasses):
        self.klasses = klasses
        self.calls = []
        self.saved = {}

    def __enter__(self):
        for k in self.klasses:
            orig = k.__dict__.get('__init__')
            if orig is None:
                continue
            self.saved[k] = orig

            def make(k=k, orig=orig):
                def wrapper(obj, *a, **kw):
                    eff_cls = next((c_ for c_ in type(obj).__mro__ if '__init__' in c_.__dict__), None)
                    if eff_cls is k:      # k's __init__ is the constructor Python runs for this object
                        try:
                            ba = inspect.signature(orig).bind(obj, *a, **kw)
                            given = dict(list(ba.arguments.items())[1:])
                            ba.apply_defaults()
                            eff = dict(list(ba.arguments.items())[1:])
                        except TypeError:
                            given, eff = dict(kw), dict(kw)
                        self.calls.append((type(obj).__name__, obj, given, eff))
                    return orig(obj, *a, **kw)
                wrapper.__signature__ = inspect.signature(orig)      # the factory inspects constructor signatures
                wrapper.__name__ = '__init__'
                return wrapper
            k.__init__ = make()
        return self

    def __exit__(self, *a):
        for k, orig in self.saved.items():
            k.__init__ = orig


def build_par(c, tmp, W):
    """text of the input file and the expectation {class name: {key: value}} of keys GIVEN"""
    forms = c['forms']
    fi = [0]

    def num(x):
        fi[0] += 1
        return fmt_num(x, forms[fi[0] % len(forms)])

    def boolean(b):
        return (BOOLTRUE if b else BOOLFALSE)[c['boolform']]
    expect = {}
    lines = ['[Global]', 'xsec_path = %s' % os.path.join(tmp, 'xsec'), 'cia_path = %s' % os.path.join(tmp, 'cia'), '']
    # ---- chemistry
    lines += ['[Chemistry]', 'chemistry_type = taurex', 'fill_gases = H2,He']
    exp_chem = {'fill_gases': ['H2', 'He']}
    if c['ratio'] is not None:
        lines.append('ratio = %s' % num(c['ratio']))
        exp_chem['ratio'] = c['ratio']
    expect['TaurexChemistry'] = [exp_chem]
    gas_classes = {'constant': 'ConstantGas', 'twolayer': 'TwoLayerGas', 'twopoint': 'TwoPointGas'}
    mols = list(W.tables.keys())
    for i, g in enumerate(c['gases'][:len(mols)]):
        mol = mols[i]
        lines.append('    [[%s]]' % mol)
        lines.append('    gas_type = %s' % g['type'])
        e = {'molecule_name': mol}
        keys = {'constant': ['mix_ratio'], 'twolayer': ['mix_ratio_surface', 'mix_ratio_top', 'mix_ratio_P', 'mix_ratio_smoothing'],
                'twopoint': ['mix_ratio_surface', 'mix_ratio_top']}[g['type']]
        for k in keys:
            if g[k] is None:
                continue
            v = float(g[k]) if k == 'mix_ratio_smoothing' else 10.0 ** g[k]
            lines.append('    %s = %s' % (k, num(v)))
            e[k] = v
        expect.setdefault(gas_classes[g['type']], []).append(e)
    lines.append('')
    # ---- temperature
    tsel = c['temp']
    tk = c['tkeys']
    tclass = {'isothermal': 'Isothermal', 'guillot': 'Guillot2010', 'guillot2010': 'Guillot2010', 'npoint': 'NPoint'}[tsel]
    sel_text = tsel
    if c['composite'] == 'mixin' and tsel == 'isothermal':
        sel_text = 'tempscalar+isothermal'
    lines += ['[Temperature]', 'profile_type = %s' % sel_text]
    e = {}
    keys = {'Isothermal': ['T'], 'Guillot2010': ['T_irr', 'kappa_irr', 'kappa_v1', 'kappa_v2', 'alpha', 'T_int'],
            'NPoint': ['T_surface', 'T_top', 'temperature_points', 'smoothing_window']}[tclass]
    for k in keys:
        if tk[k] is None:
            continue
        if k == 'temperature_points':
            lines.append('temperature_points = %s' % ','.join(num(x) for x in tk[k]))
            pp = [3e4, 3e2]
            lines.append('pressure_points = %s' % ','.join(num(x) for x in pp))
            e[k] = [float(x) for x in tk[k]]
            e['pressure_points'] = pp
        else:
            lines.append('%s = %s' % (k, num(tk[k])))
            e[k] = float(tk[k])
    if sel_text.startswith('tempscalar'):
        lines.append('scale_factor = 1.0')
    else:
        expect[tclass] = [e]
    lines.append('')
    # ---- pressure / planet / star
    lines += ['[Pressure]', 'profile_type = %s' % ('hydrostatic' if c['boolform'] % 2 else 'simple')]
    e = {}
    for k, v in c['pkeys'].items():
        if v is not None:
            lines.append('%s = %s' % (k, num(v)))
            e[k] = float(v)
    expect['SimplePressureProfile'] = [e]
    lines += ['', '[Planet]', 'planet_type = simple']
    e = {}
    for k, v in c['plkeys'].items():
        if v is not None:
            lines.append('%s = %s' % (k, num(v)))
            e[k] = float(v)
    expect['Planet'] = [e]
    lines += ['', '[Star]', 'star_type = blackbody']
    e = {}
    for k, v in c['skeys'].items():
        if v is not None:
            lines.append('%s = %s' % (k, num(v)))
            e[k] = float(v)
    expect['BlackbodyStar'] = [e]
    # ---- model
    mclass = {'transmission': 'TransmissionModel', 'emission': 'EmissionModel', 'directimage': 'DirectImageModel'}[c['family']]
    lines += ['', '[Model]', 'model_type = %s' % c['family']]
    e = {}
    if c['family'] == 'transmission' and c['mkeys']['new_path_method'] is not None:
        lines.append('new_path_method = %s' % boolean(c['mkeys']['new_path_method']))
        e['new_path_method'] = bool(c['mkeys']['new_path_method'])
    if c['family'] != 'transmission' and c['mkeys']['ngauss'] is not None:
        lines.append('ngauss = %s' % num(c['mkeys']['ngauss']))
        e['ngauss'] = float(c['mkeys']['ngauss'])
    expect[mclass] = [e]
    lines.append('    [[Absorption]]')
    expect['AbsorptionContribution'] = [{}]
    ck = c['ckeys']
    for name in c['contribs']:
        if name in ('SimpleClouds', 'ThickClouds') and c['family'] != 'transmission':
            continue
        if name in ('SimpleClouds', 'ThickClouds') and 'SimpleCloudsContribution' in expect:
            continue
        lines.append('    [[%s]]' % name)
        e = {}
        if name == 'CIA':
            lines.append('    cia_pairs = H2-He,')
            e['cia_pairs'] = ['H2-He']
            expect['CIAContribution'] = [e]
        elif name == 'Rayleigh':
            expect['RayleighContribution'] = [e]
        elif name in ('SimpleClouds', 'ThickClouds'):
            if ck['clouds_pressure'] is not None:
                lines.append('    clouds_pressure = %s' % num(10.0 ** ck['clouds_pressure']))
                e['clouds_pressure'] = 10.0 ** ck['clouds_pressure']
            expect['SimpleCloudsContribution'] = [e]
        elif name == 'FlatMie':
            for k in ('flat_mix_ratio', 'flat_bottomP', 'flat_topP'):
                if ck[k] is not None:
                    lines.append('    %s = %s' % (k, num(10.0 ** ck[k])))
                    e[k] = 10.0 ** ck[k]
            expect['FlatMieContribution'] = [e]
        else:
            for k in ('lee_mie_radius', 'lee_mie_q', 'lee_mie_mix_ratio', 'lee_mie_bottomP', 'lee_mie_topP'):
                if ck[k] is not None:
                    v = 10.0 ** ck[k] if k in ('lee_mie_mix_ratio', 'lee_mie_bottomP', 'lee_mie_topP') else ck[k]
                    lines.append('    %s = %s' % (k, num(v)))
                    e[k] = v
            expect['LeeMieContribution'] = [e]
    return lines, expect


def inject_negative(lines, c):
    """returns new lines with one unknown selector / key / contribution"""
    kind, where = c['negative'], c['neg_where']
    out_lines = list(lines)
    if kind == 'unknown-contribution':
        out_lines.append('    [[NoSuchContribution]]')
        return out_lines, 'Model'
    header = {'Gas': None, 'Contribution': '    [[Absorption]]'}.get(where, '[%s]' % where)
    if where == 'Gas':
        idx = [i for i, l in enumerate(out_lines) if l.startswith('    gas_type')]
        if not idx:
            return None, None
        if kind == 'unknown-selector':
            out_lines[idx[0]] = '    gas_type = no-such-gas-profile'
        else:
            out_lines.insert(idx[0] + 1, '    not_a_parameter = 3')
        return out_lines, 'Chemistry'
    if header not in out_lines:
        return None, None
    i = out_lines.index(header)
    if kind == 'unknown-selector':
        if where == 'Contribution':
            out_lines[i] = '    [[NotAContribution]]'
            return out_lines, 'Model'
        out_lines[i + 1] = out_lines[i + 1].split('=')[0] + '= no-such-component'
    else:
        out_lines.insert(i + 2 if where != 'Contribution' else i + 1, ('    ' if where == 'Contribution' else '') + 'not_a_parameter = 3')
    return out_lines, ('Model' if where in ('Contribution',) else where)


def write_data(c, tmp):
    """pickle cross-sections + pickle CIA on disk; returns a synthetic World description for the library build"""
    os.makedirs(os.path.join(tmp, 'xsec'))
    os.makedirs(os.path.join(tmp, 'cia'))
    wn = c['wn0'] + c['dwn'] * np.arange(6)
    mols = ['H2O', 'CH4', 'CO2'][:max(1, len(c['gases']))]

    class W:
        pass
    W.tables = {}
    W.wn = wn
    for mol, t in zip(mols, c['tables']):
        Tg, Pg, tab = synth.table_arrays(t, 6)
        with open(os.path.join(tmp, 'xsec', '%s.R100.TauREx.pickle' % mol), 'wb') as f:
            pickle.dump({'wno': wn, 't': Tg, 'p': Pg / 1e5, 'xsecarr': tab, 'name': mol}, f)
        W.tables[mol] = (Tg, Pg, tab, wn)
    Tc = np.array([100.0, 1000.0, 3000.0])
    cia = 1e-55 * (1.0 + np.arange(18).reshape(3, 6))
    with open(os.path.join(tmp, 'cia', 'H2-He_verif.db'), 'wb') as f:
        pickle.dump({'wno': wn, 't': Tc, 'xsecarr': cia}, f)
    W.cia = (Tc, cia)
    return W


def builtin_classes():
    from taurex.parameter.classfactory import ClassFactory
    cf = ClassFactory()
    ks = set()
    for attr in ('temperatureKlasses', 'pressureKlasses', 'chemistryKlasses', 'gasKlasses', 'planetKlasses', 'starKlasses',
                 'modelKlasses', 'contributionKlasses'):
        ks.update(getattr(cf, attr))
    allk = set()
    for k in ks:
        for b in k.__mro__:
            if b.__module__.startswith('taurex.') and '__init__' in b.__dict__:
                allk.add(b)
    return sorted(allk, key=lambda k: k.__name__)


def values_equal(a, b):
    if isinstance(b, bool):
        return isinstance(a, (bool, np.bool_)) and bool(a) == b
    if isinstance(b, list):
        if not isinstance(a, (list, tuple, np.ndarray)) or len(a) != len(b):
            return False
        return all(values_equal(x, y) for x, y in zip(a, b))
    if isinstance(b, str):
        return isinstance(a, str) and a == b
    try:
        return (not isinstance(a, (bool, str))) and close(float(a), float(b), rtol=1e-15)
    except (TypeError, ValueError):
        return False


def check_sections(out, c, tmp, run_cli):
    from taurex.parameter import ParameterParser
    synth.reset_world()
    W = write_data(c, tmp)
    lines, expect = build_par(c, tmp, W)
    negative = c['negative'] if not run_cli else None
    where = None
    if negative:
        out.cls('negative')
        neg_lines, where = inject_negative(lines, c)
        if neg_lines is None:
            negative = None
        else:
            lines = neg_lines
    if c['composite'] == 'custom' and not negative:
        out.cls('custom-class')
        py = os.path.join(tmp, 'mytemp.py')
        with open(py, 'w') as f:
            f.write('import numpy as np\nfrom taurex.temperature import TemperatureProfile\n\n\nclass MyIso(TemperatureProfile):\n'
                    '    def __init__(self, T=777.0, extra=2.0):\n        super().__init__("MyIso")\n        self.T = T\n        self.extra = extra\n\n'
                    '    @property\n    def profile(self):\n        return np.ones(self.nlayers) * self.T\n\n'
                    '    @classmethod\n    def input_keywords(cls):\n        return ["myiso"]\n')
        i = lines.index('[Temperature]')
        j = lines.index('', i)
        lines[i + 1:j] = ['profile_type = custom', 'python_file = %s' % py, 'extra = 5', 'T = 1234']
        for k in ('Isothermal', 'Guillot2010', 'NPoint'):
            expect.pop(k, None)
    if any(l.startswith('profile_type = tempscalar') for l in lines):
        out.cls('mixin-selector')
    par = os.path.join(tmp, 'input.par')
    with open(par, 'w') as f:
        f.write('\n'.join(lines) + '\n')
    nondefault = sum(len(e) for v in expect.values() for e in v)
    sections = sum(1 for v in expect.values() for e in v if e)
    pp = ParameterParser()
    cut(out, 'parser.read', pp.read, par)
    cut(out, 'setup_globals', pp.setup_globals)
    with Recorder(builtin_classes()) as rec:
        try:
            with np.errstate(all='ignore'):
                model = pp.generate_appropriate_model()
            failed = None
        except Exception as e:                              # noqa
            failed = e
    if negative:
        out.applies('unknown-is-error')
        if failed is None:
            out.fail('unknown-is-error@%s,%s' % (negative, c['neg_where']), 'the input file was accepted')
        return nondefault >= 3
    if failed is not None:
        tb = failed.__traceback__
        where_ = ''
        while tb is not None:
            if '/taurex/' in tb.tb_frame.f_code.co_filename:
                where_ = '%s:%s' % (os.path.basename(tb.tb_frame.f_code.co_filename), tb.tb_frame.f_code.co_name)
            tb = tb.tb_next
        disc = ''
        if 'twopoint' in str(failed) and any(g['type'] == 'twopoint' for g in c['gases']):
            disc = 'gas:twopoint@'
        out.fail('builds@%sraises:%s:%s' % (disc, type(failed).__name__, where_), '%s: %s\n%s' % (type(failed).__name__, failed, '\n'.join(lines[4:40])))
        return False
    # ---- every key given reached its constructor; omitted keys are the defaults --------------------------
    out.applies('keys-reach-constructor')
    by_class = {}
    for name, obj, given, eff in rec.calls:
        by_class.setdefault(name, []).append((obj, given, eff))
    for cname, exps in expect.items():
        got = by_class.get(cname, [])
        if len(got) < len(exps):
            out.fail('keys-reach-constructor@%s,not-built' % cname, '%d instance(s) built, %d expected' % (len(got), len(exps)))
            continue
        for e in exps:
            # match by molecule for gases
            cands = [g for g in got if 'molecule_name' not in e or g[2].get('molecule_name') == e['molecule_name']]
            if not cands:
                out.fail('keys-reach-constructor@%s,not-built' % cname, 'no instance for %s' % e.get('molecule_name'))
                continue
            obj, given, eff = cands[-1]
            sig = inspect.signature(type(obj).__init__ if type(obj).__name__ == cname else obj.__class__.__init__)
            for k, v in e.items():
                if k not in eff or not values_equal(eff[k], v):
                    out.fail('keys-reach-constructor@%s.%s' % (cname, k), '%s=%r written, constructor received %r' % (k, v, eff.get(k)))
            for k, v in eff.items():
                if k in e or k in ('planet', 'star', 'chemistry', 'temperature_profile', 'pressure_profile', 'observation', 'molecule_name'):
                    continue
                p = sig.parameters.get(k)
                if p is not None and p.default is not inspect.Parameter.empty and not _same_default(v, p.default):
                    out.fail('keys-reach-constructor@%s.%s,default' % (cname, k), '%s omitted, constructor received %r instead of the default %r' % (k, v, p.default))
    tp = model.temperature
    if c['composite'] == 'custom' and not negative:
        out.applies('custom-class')
        if type(tp).__name__ != 'MyIso' or getattr(tp, 'extra', None) != 5.0 or getattr(tp, 'T', None) != 1234.0:
            out.fail('custom-class', 'custom temperature class: got %s extra=%r T=%r' % (type(tp).__name__, getattr(tp, 'extra', None), getattr(tp, 'T', None)))
    if any(l.startswith('profile_type = tempscalar') for l in lines):
        from taurex.temperature import Isothermal
        from taurex.mixin.mixins import TempScaler
        out.applies('mixin-selector')
        wantT = c['tkeys']['T'] if c['tkeys']['T'] is not None else 1500
        if not isinstance(tp, Isothermal) or not isinstance(tp, TempScaler) or not values_equal(tp.isoTemperature, wantT):
            out.fail('mixin-selector', 'tempscalar+isothermal built %s with T=%r' % ([k.__name__ for k in type(tp).__mro__[:4]], getattr(tp, 'isoTemperature', None)))
    if run_cli:
        check_cli(out, c, tmp, par, model)
    return bool(nondefault >= 3 and sections >= 3)


def _same_default(v, d):
    try:
        if isinstance(d, (list, tuple, np.ndarray)) or isinstance(v, (list, tuple, np.ndarray)):
            return list(v) == list(d)
        return v == d or (v is None and d is None)
    except Exception:
        return False


def check_cli(out, c, tmp, par, lib_model):
    import h5py
    from taurex import taurex as prog
    outfile = os.path.join(tmp, 'out.h5')
    specfile = os.path.join(tmp, 'spec.dat')
    # library side: the model the parser built, run through the public API
    with np.errstate(all='ignore'):
        cut(out, 'library-build', lib_model.build)
        lib = cut(out, 'library-model', lib_model.model)
    want = np.array(lib[1], dtype=float, copy=True)
    grid = np.array(lib[0], dtype=float, copy=True)
    synth.reset_world()
    argv = sys.argv
    sys.argv = ['taurex', '-i', par, '-o', outfile, '-S', specfile]
    try:
        with contextlib.redirect_stdout(io.StringIO()), contextlib.redirect_stderr(io.StringIO()), np.errstate(all='ignore'):
            cut(out, 'cli-main', prog.main)
    finally:
        sys.argv = argv
        import logging
        logging.disable(logging.CRITICAL)
    out.applies('cli-spectrum')
    got = np.loadtxt(specfile, ndmin=2)
    if got.shape != (len(grid), 4) or not close(got[:, 0], 10000.0 / grid, rtol=1e-12) or not close(got[:, 1], want, rtol=1e-9, atol=1e-300):
        out.fail('cli-spectrum@-S', 'saved spectrum differs from the library result (max rel %.2e)'
                 % (maxrel(got[:, 1], want) if got.shape == (len(grid), 4) else -1))
    with h5py.File(outfile, 'r') as f:
        ns = f['Output']['Spectra']['native_spectrum'][...]
        ng = f['Output']['Spectra']['native_wngrid'][...]
        mt = f['ModelParameters']['model_type'][()]
    mt = mt.decode() if isinstance(mt, bytes) else mt
    if not np.array_equal(ng, grid) or not close(ns, want, rtol=1e-9, atol=1e-300) or mt != type(lib_model).__name__:
        out.fail('cli-spectrum@-o', 'stored spectrum / model type differ from the library result')


def check(case):
    out = Outcome()
    part = case['part']
    out.cls('part:' + part)
    tmp = tempfile.mkdtemp(prefix='verif_c15_')
    try:
        if part == 'selectors':
            out.nontrivial = bool(check_selectors(out))
        else:
            out.nontrivial = bool(check_sections(out, case, tmp, run_cli=(part == 'cli')))
    except CutError:
        pass
    finally:
        synth.reset_world()
        shutil.rmtree(tmp, ignore_errors=True)
    return out
