"""C04 — opacity interpolation in (T, P) is sound everywhere."""
import math
import numpy as np
from hypothesis import strategies as st
from vlib import strategies as S

from vlib.runner import Outcome, cut, CutError
from vlib import synth, ref

ID = 'C04'
TITLE = 'opacity interpolation'
CASES = {'quick': 3000, 'thorough': 400000}
SHARDS = {'quick': 1, 'thorough': 16}
RULE = ('Generated: table with 1-6 pressures x 1-6 temperatures x 1-6 wavenumbers '
        '(strictly increasing grids, values 10**(base+delta), base in [-40,0], in-table '
        'dynamic range 0/2/10/40 decades), cross-section or k-table layout (1-4 quadrature '
        'points), mode linear/exp, optional contiguous wavenumber sub-range, and one (T,P) '
        'chosen per axis as below / above / inside a cell / exactly on a node / one ulp '
        'either side of a node.  Non-trivial = the point is not on a node in both axes and '
        'the table is not constant over the bracketing nodes; distinct by hash of the case.'
        ' Half of the cases put a history on the opacity object first: an earlier query in the other interpolation mode followed by set_interpolation_mode, or an earlier query elsewhere in the same mode.')
ASSUMPTIONS = [
    'tolerance: |code-ref| <= 1e-13*M + 1e-11*|ref| with M the largest tabulated value among the '
    'bracketing nodes and their immediate neighbours (float64 cancellation is relative to the '
    'largest node that may enter the formula, not to the result)',
    'exp mode: the reference is evaluated as an interval over perturbations of the two '
    'pressure-interpolated values by 8 eps*max(node), because a^(1-w) b^w amplifies '
    'cancellation error in a,b; the code must fall inside that interval (+1e-9 rel)',
    "exp-mode form follows the docstring of interp_exp_and_lin_numpy: linear across log10 P "
    "first, then exponential across T",
    'exp mode: neighbouring nodes differ by at most 1e10 (linear mode: up to 1e40)',
    'next to (not on) the Pmin edge with T below Tmin either side of the documented zero corner is accepted',
    'opacity objects are in-memory subclasses of InterpolatingOpacity / KTable (the public '
    'extension point); file readers are covered by C14',
]
_REG = ['%s/%s' % (a, b) for a in ('Tbelow', 'Tin', 'Tabove') for b in ('Pbelow', 'Pin', 'Pabove')]
RULE = RULE + ' ' + 'Cases are stratified by interpolation mode with a fixed share of queries inside the grid on both axes; a third of the tables hold their temperature axis as whole numbers in an integer array.'
REQUIRED = {('region:' + r): 0.03 for r in _REG}
REQUIRED.update({'history:other-mode': 0.07, 'history:same-mode': 0.07, 'axis:integer-temperatures': 0.15, 'history:refused-mode,raised': 0.05, 'history:decoy-grid': 0.05})



REGIONS = [('above', 'below'), ('below', 'above'), ('below', 'below'), ('above', 'above'),
           ('in', 'below'), ('in', 'above'), ('below', 'in'), ('above', 'in'), ('in', 'in'), ('in', 'in')]
INKINDS = ['inside', 'node', 'ulp-', 'ulp+', 'inside']


@st.composite
def _point(draw, region=None):
    """one draw picks the region (mixed corners first), then the in-grid flavour per axis"""
    tk, pk = region or draw(st.sampled_from(REGIONS))
    res = []
    for k in (tk, pk):
        kind = draw(st.sampled_from(INKINDS)) if k == 'in' else k
        res.append([kind, draw(S.ints(0, 5)), draw(st.floats(0.01, 0.99)), draw(st.floats(0.0, 1.0))])
    return res


# each interpolation mode gets half of every run, and within it a fixed share of queries inside the grid on both axes (the
# only place where the two modes, and the order of the two 1-D interpolations, differ)
STRATA = {'linear': 2, 'exp': 2, 'linear:in': 1, 'exp:in': 1}
STRATA_KEY = 'mode'


@st.composite
def _case(draw, part=None):
    pt = draw(_point(('in', 'in') if part and part.endswith(':in') else None))
    nT = draw(S.ints(1, 6))
    nP = draw(S.ints(1, 6))
    nW = draw(S.ints(1, 6))
    T0 = draw(st.floats(40.0, 2000.0))
    dT = draw(st.lists(st.floats(1.0, 800.0), min_size=nT - 1, max_size=nT - 1))
    P0 = draw(st.floats(-4.0, 6.0))
    dP = draw(st.lists(st.floats(0.05, 2.5), min_size=nP - 1, max_size=nP - 1))
    base = draw(st.floats(-40.0, 0.0))
    span = draw(st.sampled_from([0.0, 2.0, 10.0, 40.0]))
    ng = draw(st.sampled_from([0, 0, 0, 1, 2, 4]))
    nval = nP * nT * nW * max(ng, 1)
    if span == 0.0:
        delta = [0.0] * nval
    else:
        delta = draw(st.lists(st.floats(0.0, span), min_size=nval, max_size=nval))
    mode = part.split(':')[0] if part else draw(st.sampled_from(['linear', 'exp']))
    if mode == 'exp' and span > 10.0:
        # neighbouring nodes more than 1e10 apart leave no significant digits in the
        # pressure-interpolated value a float64 kernel feeds to log(); outside the domain
        delta = [d / 4.0 for d in delta]
    sub = None
    if nW > 1 and draw(st.booleans()):
        a = draw(S.ints(0, nW - 1))
        b = draw(S.ints(a, nW - 1))
        sub = [a, b]
    # history on the live object before the judged query: an earlier query in the other mode followed by
    # set_interpolation_mode, or an earlier query elsewhere in the same mode
    warm = draw(S.pick([None, 'other-mode', 'same-mode', 'other-mode', 'refused-mode', 'decoy-grid', None, 'other-mode', 'refused-mode']))
    wpt = draw(st.tuples(st.floats(0.05, 0.95), st.floats(0.05, 0.95)))
    # the temperature axis stored as whole numbers in an integer array (300, 400, ... K as read from a file that holds
    # them so): the same table, and a query between the nodes is still bracketed by them
    int_T = draw(st.sampled_from([False, False, True]))
    if int_T:
        T0 = float(round(T0))
        dT = [float(max(1, round(x))) for x in dT]
    return {'T0': T0, 'dT': dT, 'lP0': P0, 'dlP': dP, 'nW': nW, 'base': base,
            'delta': delta, 'ng': ng, 'mode': mode, 'sub': sub,
            'tpt': pt[0], 'ppt': pt[1], 'warm': warm, 'wpt': list(wpt), 'int_T': int_T}


def strategy(tier, part=None):
    return _case(part)


def _pick(grid, spec, lo_out, hi_out):
    kind, idx, frac, far = spec
    n = len(grid)
    if kind == 'below':
        return lo_out(grid[0], far)
    if kind == 'above':
        return hi_out(grid[-1], far)
    if kind == 'inside' and n > 1:
        i = idx % (n - 1)
        return grid[i] + frac * (grid[i + 1] - grid[i])
    i = idx % n
    if kind == 'ulp-':
        return float(np.nextafter(grid[i], -np.inf))
    if kind == 'ulp+':
        return float(np.nextafter(grid[i], np.inf))
    return grid[i]


def build(case):
    Tg = list(np.cumsum([case['T0']] + list(case['dT'])))
    lP = list(np.cumsum([case['lP0']] + list(case['dlP'])))
    Pg = [10.0 ** x for x in lP]
    nW = case['nW']
    ng = case['ng']
    wn = [100.0 + 37.5 * i for i in range(nW)]
    shape = (len(Pg), len(Tg), nW) + ((ng,) if ng else ())
    with np.errstate(all='ignore'):
        tab = 10.0 ** np.maximum(case['base'] - np.array(case['delta'], dtype=float).reshape(shape), -40.0)
    return Tg, Pg, wn, tab


def check(case):
    out = Outcome()
    Tg, Pg, wn, tab = build(case)
    mode, ng = case['mode'], case['ng']
    T = _pick(Tg, case['tpt'], lambda e, f: e * (0.02 + 0.97 * f), lambda e, f: e * (1.0 + 3 * f) + 1e-9)
    lp = [math.log10(p) for p in Pg]
    pk = case['ppt'][0]
    if pk in ('node', 'ulp-', 'ulp+') or (pk == 'inside' and len(Pg) == 1):
        # exact node pressures (and their neighbours) are chosen in linear space
        P = float(_pick(Pg, [('node' if pk == 'inside' else pk)] + list(case['ppt'][1:]), None, None))
    else:
        x = _pick(lp, case['ppt'], lambda e, f: e - 1e-6 - 6 * f, lambda e, f: e + 1e-6 + 6 * f)
        P = 10.0 ** x
    # class by the actual numbers
    tc = 'Tbelow' if T < Tg[0] else ('Tabove' if T > Tg[-1] else 'Tin')
    lx = math.log10(P)
    pc = 'Pbelow' if lx < lp[0] else ('Pabove' if lx > lp[-1] else 'Pin')
    out.cls('region:%s/%s' % (tc, pc))
    out.cls('mode:' + mode)
    out.cls('layout:' + ('ktable%d' % ng if ng else 'xsec'))
    out.cls('kindT:' + case['tpt'][0])
    out.cls('kindP:' + case['ppt'][0])

    warm = case.get('warm')
    mode0 = mode if warm != 'other-mode' else {'linear': 'exp', 'exp': 'linear'}[mode]
    Tg_s = synth._as_stored(Tg, bool(case.get('int_T')))
    if Tg_s.dtype.kind == 'i':
        out.cls('axis:integer-temperatures')
    if ng:
        w = np.ones(ng) / ng
        op = synth.SynthKTable('XX', wn, Tg_s, Pg, tab, w, mode=mode0)
    else:
        op = synth.SynthOpacity('XX', wn, Tg_s, Pg, tab, mode=mode0)
    if warm:
        out.cls('history:' + warm)
        fT, fP = case['wpt']
        Tw = Tg[0] + fT * (Tg[-1] - Tg[0]) if len(Tg) > 1 else Tg[0] * (0.5 + fT)
        Pw = 10.0 ** (lp[0] + fP * (lp[-1] - lp[0])) if len(Pg) > 1 else Pg[0] * (0.5 + fP)
        try:
            with np.errstate(all='ignore'):
                if warm == 'decoy-grid':
                    # another opacity alive in the same process whose pressure grid has the same size and end points but
                    # other interior nodes, used first: objects share nothing
                    if len(Pg) >= 3:
                        lpd = np.array(lp, dtype=float)
                        lpd[1:-1] = lpd[0] + (lpd[1:-1] - lpd[0]) * 0.5
                        Pd = 10.0 ** lpd
                        decoy = (synth.SynthKTable('YY', wn, Tg_s, Pd, tab, np.ones(ng) / ng, mode=mode0) if ng
                                 else synth.SynthOpacity('YY', wn, Tg_s, Pd, tab, mode=mode0))
                        cut(out, 'evaluates', decoy.opacity, Tw, Pw, None)
                else:
                    cut(out, 'evaluates', op.opacity, Tw, Pw, None)
                if warm == 'other-mode':
                    cut(out, 'set_interpolation_mode', op.set_interpolation_mode, mode)
                elif warm == 'refused-mode':
                    # a mode that does not exist is set, the next request fails (the caller catches it), the mode is put back
                    op.set_interpolation_mode('cubic')
                    try:
                        op.opacity(Tw, Pw, None)
                    except Exception:
                        out.cls('history:refused-mode,raised')
                    cut(out, 'set_interpolation_mode', op.set_interpolation_mode, mode)
        except CutError:
            return out
    sub = case['sub']
    wsel = slice(None)
    wngrid = None
    if sub is not None:
        wsel = slice(sub[0], sub[1] + 1)
        wngrid = np.array(wn[wsel])
        out.cls('subrange')

    reg = '%s/%s' % (tc, pc)
    try:
        with np.errstate(all='ignore'):
            got = cut(out, 'evaluates', op.opacity, T, P, wngrid)
    except CutError:
        return out
    got = np.asarray(got, dtype=float)
    tsub = tab[:, :, wsel]
    nW = tsub.shape[2]
    flat = tsub.reshape(len(Pg), len(Tg), -1)          # [P,T,wn*g]
    want_shape = (nW, ng) if ng else (nW,)
    out.applies('shape')
    if got.shape != want_shape:
        out.fail('shape@%s' % reg, 'got %s want %s' % (got.shape, want_shape))
        return out
    g = got.reshape(-1)

    lo, hi = ref.bracket_bounds(flat, Tg, Pg, T, P)
    # cancellation scale: the largest node adjacent to the bracket (an
    # implementation may legitimately form node +/- neighbour differences)
    t0_, t1_ = ref.bracket(Tg, T)
    p0_, p1_ = ref.bracket([math.log10(p) for p in Pg], math.log10(P))
    maxnode = flat[max(p0_ - 1, 0):p1_ + 2, max(t0_ - 1, 0):t1_ + 2].max(axis=(0, 1)) / 1e4
    r = ref.interp_xsec_ref(flat, Tg, Pg, T, P, mode)
    both_below = (T < Tg[0] and lx < lp[0])
    # log10 of two adjacent doubles may coincide or differ by an ulp depending on the
    # log10 implementation: next to the Pmin edge (but not exactly on it) with T below
    # Tmin the documented zero corner makes the function discontinuous, so either side
    # is accepted there
    ulp = 4 * np.spacing(abs(lp[0])) + 1e-300
    if T < Tg[0] and P != Pg[0] and abs(lx - lp[0]) <= ulp:
        out.cls('ambiguous-zero-corner')
        if np.all(g == 0.0) or np.all(np.abs(g - flat[0, 0] / 1e4) <= 1e-13 * maxnode + 1e-12 * flat[0, 0] / 1e4):
            return out
        out.fail('ambiguous-corner@' + reg, 'neither zero nor the corner node: %s' % g[:3])
        return out
    atol = 1e-13 * maxnode
    tag = '%s,%s' % (reg, mode)

    out.applies('finite')
    if not np.all(np.isfinite(g)):
        out.fail('finite@' + tag, 'got %s' % g[:4])
        return out
    out.applies('non-negative')
    if np.any(g < -atol):
        out.fail('non-negative@' + tag, 'min %.3e (nodes in [%.3e,%.3e])' % (g.min(), lo.min(), hi.max()))
    if both_below:
        out.applies('zero-below-both')
        if np.any(g != 0.0):
            out.fail('zero-below-both@' + tag, 'got %s' % g[:4])
        return out
    out.applies('bracketed')
    if np.any(g < lo - atol - 1e-11 * lo) or np.any(g > hi + atol + 1e-11 * hi):
        k = int(np.argmax(np.maximum(lo - g, g - hi) / np.maximum(hi, 1e-300)))
        out.fail('bracketed@' + tag, 'got %.6e outside [%.6e, %.6e] at T=%r P=%r' % (g[k], lo[k], hi[k], T, P))
    t0, t1 = ref.bracket(Tg, T)
    p0, p1 = ref.bracket(lp, lx)
    on_node = (t0 == t1 and p0 == p1)
    if on_node:
        out.applies('node-reproduced')
        node = flat[p0, t0] / 1e4
        if np.any(np.abs(g - node) > atol + 1e-12 * node):
            out.fail('node-reproduced@' + tag, 'got %.6e want %.6e' % (g[0], node[0]))
    # value against the reference
    out.applies('value')
    if mode == 'linear' or t0 == t1:
        bad = np.abs(g - r) > atol + 1e-11 * np.abs(r)
    else:
        # interval over perturbed intermediate values
        # in cm2, on a and b: float64 cancellation (8 eps) plus the weight uncertainty from log10(P) itself -- one ulp of
        # log10 P over the node spacing moves the pressure weight by ulp/dlogP, times the neighbouring node
        lp_ = [math.log10(p) for p in Pg]
        dl_ = min([b_ - a_ for a_, b_ in zip(lp_[:-1], lp_[1:])] or [1.0])
        d = (8 * 2.3e-16 + 4 * float(np.spacing(max(abs(x_) for x_ in lp_))) / dl_) * 1e4 * maxnode
        rs = []
        for sa in (-1, 0, 1):
            for sb in (-1, 0, 1):
                rs.append(_exp_with_perturb(flat, Tg, Pg, T, P, sa * d, sb * d))
        rs = np.array(rs)
        rlo, rhi = np.nanmin(rs, axis=0), np.nanmax(rs, axis=0)
        bad = (g < rlo * (1 - 1e-9) - atol) | (g > rhi * (1 + 1e-9) + atol)
    if np.any(bad):
        k = int(np.argmax(bad))
        out.fail('value@' + tag, 'got %.9e ref %.9e (bracket [%.3e,%.3e]) T=%r P=%r' % (g[k], r[k], lo[k], hi[k], T, P))
    spread = np.any(hi > lo * (1 + 1e-6))
    out.nontrivial = bool((not on_node) and spread)
    return out


def _exp_with_perturb(flat, Tg, Pg, T, P, da, db):
    lp = [math.log10(p) for p in Pg]
    x = math.log10(P)
    t0, t1 = ref.bracket(Tg, T)
    p0, p1 = ref.bracket(lp, x)

    def along_p(ti):
        if p0 == p1:
            return flat[p0, ti].copy()
        f = (x - lp[p0]) / (lp[p1] - lp[p0])
        return flat[p0, ti] + f * (flat[p1, ti] - flat[p0, ti])
    # the perturbation also applies when P sits exactly on a node: the code still evaluates
    # x_lo - (x_lo - x_hi)*1.0 from the neighbouring node, which cancels relative to the larger of the two
    a = np.maximum(along_p(t0) + da, 1e-320)
    b = np.maximum(along_p(t1) + db, 1e-320)
    w = (1.0 / Tg[t0] - 1.0 / T) / (1.0 / Tg[t0] - 1.0 / Tg[t1])
    with np.errstate(all='ignore'):
        return a * np.exp(w * np.log(b / a)) / 1e4
