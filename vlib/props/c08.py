"""C08 — prior transforms are monotone inverse-CDF maps in the declared space."""
import math
import os
import tempfile
import numpy as np
from hypothesis import strategies as st
from vlib import strategies as S

from vlib.runner import Outcome, cut, CutError, close

ID = 'C08'
TITLE = 'prior transforms'
CASES = {'quick': 2500, 'thorough': 320000}
SHARDS = {'quick': 1, 'thorough': 16}
RULE = ('Generated: prior kind (Uniform / LogUniform / Gaussian / LogGaussian), bounds in either order with '
        'magnitudes 1e-300..1e300 and both signs, lin_bounds (positive), means, widths>0, lin_mean, a list of '
        'u in [0,1] always containing 0, 1 and ordered pairs, a rendering of the prior as documented text '
        '(name exact/lower/upper case, tuple or list, repr / exponent / integer number forms, explicit + '
        'signs, inner whitespace, keyword order) evaluated through create_prior and through a generated '
        '[Fitting] section read by ParameterParser, and a fitting-parameter tuple (mode, bounds) for the '
        'default prior.  Non-trivial = non-degenerate bounds / width, some u strictly inside (0,1), and a '
        'text form with >=2 keywords or a lin_* argument, or reversed bounds; distinct by case hash.')
ASSUMPTIONS = [
    'equal bounds (a point mass) and bounds whose difference overflows float64 are outside the domain',
    'leading whitespace inside the quoted prior text is outside the documented syntax (python-call form)',
    'uniform: |x-(low+u*(high-low))| <= 1e-12*max(|low|,|high|); gaussian: forward CDF via math.erfc '
    'agrees with u to 1e-8 relative on the nearer tail',
    'lin_std is not covered by the statement and not judged',
]
RULE = RULE + ' ' + 'Also: u handed over as python / numpy integer (end points), 0-d and 1-d arrays; Uniform / LogUniform objects given new bounds through set_bounds and judged again.'
REQUIRED = {'rebounded': 0.25, 'mean-zero': 0.03, 'kind:Uniform': 0.1, 'kind:LogUniform': 0.1, 'kind:Gaussian': 0.1, 'kind:LogGaussian': 0.1,
            'reversed-bounds': 0.1, 'via:parser': 0.1, 'lin-arg': 0.1}


def _mag():
    # floats of any magnitude, both signs
    return st.one_of(
        st.floats(-1e3, 1e3),
        st.builds(lambda m, e, s: s * m * 10.0 ** e, st.floats(1.0, 9.999), S.ints(-300, 299),
                  st.sampled_from([-1.0, 1.0])),
        S.ints(-1000, 1000).map(float))


def _pos():
    return st.one_of(st.floats(1e-3, 1e3),
                     st.builds(lambda m, e: m * 10.0 ** e, st.floats(1.0, 9.999), S.ints(-300, 299)))

# coverage-guided extra (thorough tier): pure-Python modules on the text -> prior path
FUZZ = {'include': ['taurex.core.priors', 'taurex.util.fitting', 'taurex.parameter.factory', 'taurex.parameter.parameterparser'],
        'runs': 60000, 'workers': 4}


@st.composite
def _case(draw):
    kind = draw(st.sampled_from(['Uniform', 'LogUniform', 'Gaussian', 'LogGaussian']))
    args = {}
    if kind == 'Uniform':
        args['bounds'] = [draw(_mag()), draw(_mag())]
    elif kind == 'LogUniform':
        if draw(st.booleans()):
            args['lin_bounds'] = [draw(_pos()), draw(_pos())]
        else:
            args['bounds'] = [draw(st.floats(-300, 300)), draw(st.floats(-300, 300))]
    elif kind == 'Gaussian':
        args['mean'] = draw(st.one_of(st.just(0.0), _mag(), _mag()))       # a mean of exactly zero is a value like any other
        args['std'] = draw(_pos())
    else:
        if draw(st.booleans()):
            args['lin_mean'] = draw(st.one_of(st.just(1.0), _pos(), _pos()))   # log10 = 0
        else:
            args['mean'] = draw(st.floats(-300, 300))
        args['std'] = draw(st.floats(1e-3, 50.0))
    us = draw(st.lists(st.one_of(st.floats(0.0, 1.0), st.floats(0.0, 1e-6), st.floats(1 - 1e-6, 1.0),
                                 st.builds(lambda e: 10.0 ** e, S.ints(-300, -1))),
                       min_size=2, max_size=8))
    fmt = {
        'name': draw(st.sampled_from(['exact', 'lower', 'upper'])),
        'seq': draw(st.sampled_from(['tuple', 'list'])),
        'num': draw(st.lists(st.sampled_from(['repr', 'exp', 'int', 'plus']), min_size=4, max_size=4)),
        'ws': draw(st.lists(st.sampled_from(['', ' ', '  ']), min_size=6, max_size=6)),
        'rev': draw(st.booleans()),
    }
    via = draw(st.sampled_from(['create_prior', 'parser', 'parser', 'create_prior']))
    default = {'mode': draw(st.sampled_from(['linear', 'log'])),
               'bounds': [draw(_pos()), draw(_pos())], 'neg': draw(st.booleans())}
    return {'kind': kind, 'args': args, 'us': us, 'fmt': fmt, 'via': via, 'default': default,
            'pname': draw(st.sampled_from(['T', 'planet_radius', 'H2O', 'log_thing', 'a_b']))}


def strategy(tier):
    return _case()


def _num(x, style):
    if style == 'int' and float(x).is_integer() and abs(x) < 1e15:
        return str(int(x))
    if style == 'exp':
        return '%.17e' % x
    if style == 'plus' and not repr(float(x)).startswith('-'):
        return '+' + repr(float(x))
    return repr(float(x))


def render(kind, args, fmt):
    name = {'exact': kind, 'lower': kind.lower(), 'upper': kind.upper()}[fmt['name']]
    ws = fmt['ws']
    items = list(args.items())
    if fmt['rev']:
        items = items[::-1]
    parts = []
    k = 0
    for key, val in items:
        if isinstance(val, list):
            a = _num(val[0], fmt['num'][k % 4])
            b = _num(val[1], fmt['num'][(k + 1) % 4])
            k += 2
            o, c = ('(', ')') if fmt['seq'] == 'tuple' else ('[', ']')
            v = '%s%s%s,%s%s%s%s' % (o, ws[0], a, ws[1], b, ws[0], c)
        else:
            v = _num(val, fmt['num'][k % 4])
            k += 1
        parts.append('%s%s=%s%s' % (key, ws[2], ws[3], v))
    return '%s(%s%s%s)' % (name, ws[4], (',' + ws[5]).join(parts), ws[4])


def _phi_lower(z):
    return 0.5 * math.erfc(-z / math.sqrt(2.0))


def _phi_upper(z):
    return 0.5 * math.erfc(z / math.sqrt(2.0))


def check_distribution(out, tag, obj, kind, args, us):
    """obj.sample / prior / boundaries against the named distribution."""
    log = kind.startswith('Log')
    if 'Uniform' in kind:
        if 'lin_bounds' in args:
            b = [math.log10(v) for v in args['lin_bounds']]
        else:
            b = list(args['bounds'])
        low, high = min(b), max(b)
        out.applies('uniform-boundaries')
        bb = cut(out, tag + '-boundaries', obj.boundaries)
        if not close([float(bb[0]), float(bb[1])], [low, high], rtol=1e-15):
            out.fail('uniform-boundaries@' + tag, 'got %s want %s' % (bb, (low, high)))
        scale = max(abs(low), abs(high))
        prev = None
        for u in sorted(us):
            x = float(cut(out, tag + '-sample', obj.sample, u))
            want = low + u * (high - low)
            out.applies('uniform-inverse-cdf')
            if not (abs(x - want) <= 1e-12 * scale + 1e-300):
                out.fail('uniform-inverse-cdf@' + tag, 'u=%r got %r want %r bounds %s' % (u, x, want, b))
            if not (low - 1e-15 * scale <= x <= high + 1e-15 * scale):
                out.fail('uniform-support@' + tag, 'u=%r got %r outside [%r,%r]' % (u, x, low, high))
            if prev is not None and x < prev:
                out.fail('monotone@' + tag, 'u=%r gives %r < %r' % (u, x, prev))
            prev = x
    else:
        mu = math.log10(args['lin_mean']) if 'lin_mean' in args else args['mean']
        sd = args['std']
        prev = None
        for u in sorted(us):
            x = float(cut(out, tag + '-sample', obj.sample, u))
            out.applies('gaussian-inverse-cdf')
            if u == 0.0:
                ok = (x == -math.inf)
            elif u == 1.0:
                ok = (x == math.inf)
            elif not math.isfinite(x):
                ok = False
            else:
                z = (x - mu) / sd
                if u <= 0.5:
                    ok = abs(_phi_lower(z) - u) <= 1e-8 * u + 1e-305
                else:
                    ok = abs(_phi_upper(z) - (1.0 - u)) <= 1e-8 * (1.0 - u) + 1e-305
                # cancellation in (x-mu) when |mu| >> sd: allow z error of 1e-15*|mu|/sd
                if not ok:
                    dz = 4e-16 * max(abs(mu), abs(x)) / sd
                    lo_, hi_ = _phi_lower(z - dz), _phi_lower(z + dz)
                    ok = lo_ * (1 - 1e-8) <= u <= hi_ * (1 + 1e-8) if u <= 0.5 else \
                        _phi_upper(z + dz) * (1 - 1e-8) <= 1.0 - u <= _phi_upper(z - dz) * (1 + 1e-8)
            if not ok:
                out.fail('gaussian-inverse-cdf@' + tag, 'u=%r got %r mean %r std %r' % (u, x, mu, sd))
            if prev is not None and x < prev:
                out.fail('monotone@' + tag, 'u=%r gives %r < %r' % (u, x, prev))
            prev = x
    # declared space
    out.applies('space')
    for v in (-3.5, 0.0, 0.25, 2.0):
        r = cut(out, tag + '-prior', obj.prior, v)
        want = 10.0 ** v if log else v
        if not close(float(r), want, rtol=1e-14):
            out.fail('space@%s,%s' % (tag, kind), 'prior(%r)=%r want %r' % (v, r, want))


def same_object(out, tag, a, b, us):
    out.applies('text-equivalent')
    if type(a) is not type(b):
        out.fail('text-equivalent@%s,class' % tag, '%s vs %s' % (type(a).__name__, type(b).__name__))
        return
    if a.priorMode is not b.priorMode:
        out.fail('text-equivalent@%s,mode' % tag, '')
    import re
    num = re.compile(r'[-+]?(?:\d+\.?\d*|\.\d+)(?:[eE][-+]?\d+)?|inf|nan')
    pa, pb = a.params(), b.params()
    if [float(x) for x in num.findall(pa)] != [float(x) for x in num.findall(pb)] or \
            num.sub('#', pa) != num.sub('#', pb):
        out.fail('text-equivalent@%s,params' % tag, '%s vs %s' % (pa, pb))
    if 'Uniform' in type(a).__name__:
        if tuple(a.boundaries()) != tuple(b.boundaries()):
            out.fail('text-equivalent@%s,boundaries' % tag, '%s vs %s' % (a.boundaries(), b.boundaries()))
    grid = list(us) + [i / 15.0 for i in range(16)]
    sa = np.array([a.sample(u) for u in grid], dtype=float)
    sb = np.array([b.sample(u) for u in grid], dtype=float)
    if not np.array_equal(sa, sb, equal_nan=True):
        out.fail('text-equivalent@%s,samples' % tag, 'samples differ')


def check(case):
    from taurex.core import priors as P
    from taurex.parameter.factory import create_prior
    from taurex.optimizer.optimizer import compile_params
    out = Outcome()
    kind, args, us = case['kind'], case['args'], list(case['us']) + [0.0, 1.0]
    out.cls('kind:' + kind)
    if args.get('mean') == 0.0 or args.get('lin_mean') == 1.0:
        out.cls('mean-zero')
    degenerate = False
    for key in ('bounds', 'lin_bounds'):
        if key in args:
            b = args[key]
            bb = [math.log10(v) for v in b] if key == 'lin_bounds' else b
            if bb[0] == bb[1] or not math.isfinite(bb[1] - bb[0]):
                degenerate = True
            if b[0] > b[1]:
                out.cls('reversed-bounds')
    if any(k.startswith('lin_') for k in args):
        out.cls('lin-arg')
    if degenerate:
        out.cls('degenerate-excluded')
        return out
    klass = getattr(P, kind)
    try:
        direct = cut(out, 'construct', lambda: klass(**{k: (list(v) if isinstance(v, list) else v)
                                                         for k, v in args.items()}))
        check_distribution(out, 'direct', direct, kind, args, us)
        # ---- the form in which u arrives: whole numbers for the end points, single precision, 0-d and 1-d arrays --
        # the same number gives the same quantile (samplers hand over elements of their own arrays).  Single-precision u is
        # left out: scipy evaluates it in single precision, and mean + std*z then cancels to any relative error
        out.applies('input-form')
        for u in list(us[:3]) + [0.0, 1.0]:
            forms = [('0-d array', np.array(u)), ('1-d array', np.array([u, u]))]
            if u in (0.0, 1.0):
                forms += [('int', int(u)), ('numpy int', np.int64(int(u)))]
            for fname, uf in forms:
                uref = float(np.asarray(uf, dtype=float).ravel()[0])
                with np.errstate(all='ignore'):
                    want_f = float(direct.sample(uref))
                    got_f = np.asarray(cut(out, 'sample@form:' + fname, direct.sample, uf), dtype=float).ravel()
                ok_f = all((g_ == want_f) or (math.isnan(g_) and math.isnan(want_f)) or
                           (math.isfinite(g_) and math.isfinite(want_f) and abs(g_ - want_f) <= (1e-5 if fname == 'float32' else 1e-12) * max(abs(want_f), abs(g_)) + 1e-300) for g_ in got_f)
                if not ok_f:
                    out.fail('input-form@%s,%s' % (kind, fname), 'sample(%r as %s) = %s, sample(%r) = %r' % (uref, fname, got_f.tolist(), uref, want_f))
                    break
        # ---- history: new bounds given to the same Uniform / LogUniform object (set_bounds): every view follows
        if 'Uniform' in kind:
            nb_ = [float(x) for x in case['default']['bounds']]
            if kind == 'LogUniform':
                nb_ = [math.log10(x) for x in nb_]
            if nb_[0] != nb_[1]:
                out.cls('rebounded')
                cut(out, 'set_bounds', direct.set_bounds, list(nb_))
                check_distribution(out, 'rebound', direct, kind, {'bounds': list(nb_)}, us)
                cut(out, 'set_bounds', direct.set_bounds, [math.log10(v) for v in args['lin_bounds']] if 'lin_bounds' in args else list(args['bounds']))
        # lin_* equivalence with the log10 form
        if 'lin_bounds' in args:
            out.applies('lin-equivalence')
            other = klass(bounds=[math.log10(v) for v in args['lin_bounds']])
            same_object(out, 'lin_bounds', direct, other, us)
        if 'lin_mean' in args:
            out.applies('lin-equivalence')
            other = klass(mean=math.log10(args['lin_mean']), std=args['std'])
            same_object(out, 'lin_mean', direct, other, us)
        # text form
        text = render(kind, args, case['fmt'])
        out.cls('via:' + case['via'])
        if case['via'] == 'create_prior':
            parsed = cut(out, 'text-create_prior', create_prior, text)
        else:
            from taurex.parameter import ParameterParser
            d = tempfile.mkdtemp(prefix='verif_c08_')
            try:
                fn = os.path.join(d, 'in.par')
                with open(fn, 'w') as f:
                    f.write('[Fitting]\n%s:fit = True\n%s:prior = "%s"\n' % (case['pname'], case['pname'], text))
                pp = ParameterParser()
                cut(out, 'text-parser-read', pp.read, fn)
                fp = cut(out, 'text-parser', pp.generate_fitting_parameters)
                parsed = fp[case['pname']]['prior']
                out.applies('parser-fit-flag')
                if fp[case['pname']]['fit'] is not True:
                    out.fail('parser-fit-flag', 'fit flag %r' % (fp[case['pname']]['fit'],))
            finally:
                import shutil
                shutil.rmtree(d, ignore_errors=True)
        same_object(out, 'text', parsed, direct, us)
        check_distribution(out, 'text', parsed, kind, args, us[:3])
        # default prior from mode / bounds
        dflt = case['default']
        b = list(dflt['bounds'])
        mode = dflt['mode']
        if mode == 'linear' and dflt['neg']:
            b = [-b[0], b[1]]
        # a point mass is outside the domain; in log mode two distinct bounds may share their log10
        bsp = [math.log10(v) for v in b] if mode == 'log' else b
        if bsp[0] != bsp[1]:
            out.applies('default-prior')
            # the fitted parameter sits between two that are not fitted and whose bounds and mode differ from its own:
            # its default prior must come from ITS bounds and mode
            other = 'linear' if mode == 'log' else 'log'
            params = {'q0': ('q0', 'q0', lambda: 1.0, lambda v: None, other, False, [3.0, 7.0]),
                      'p': ('p', 'p', lambda: 1.0, lambda v: None, mode, True, b),
                      'q': ('q', 'q', lambda: 1.0, lambda v: None, mode, False, [11.0, 13.0])}
            res = cut(out, 'default-compile', compile_params, params, {}, None)
            fit_params, fit_priors = res[0], res[1]
            if len(fit_priors) != 1 or len(fit_params) != 1:
                out.fail('default-prior@count', 'got %d priors' % len(fit_priors))
            else:
                pr = fit_priors[0]
                if mode == 'log':
                    check_distribution(out, 'default', pr, 'LogUniform', {'lin_bounds': b}, us)
                else:
                    check_distribution(out, 'default', pr, 'Uniform', {'bounds': b}, us)
    except CutError:
        return out
    inner = any(0.0 < u < 1.0 for u in us)
    rich = (len(args) >= 2) or any(k.startswith('lin_') for k in args) or \
        any(isinstance(v, list) and v[0] > v[1] for v in args.values())
    out.nontrivial = bool(inner and rich)
    return out
