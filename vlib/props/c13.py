"""C13 — restricting the spectral grid never changes the values computed on it."""
import math
import numpy as np
from hypothesis import strategies as st

from vlib.runner import Outcome, cut, CutError, close, maxrel
from vlib import synth, ref, strategies as S
from vlib.props.c01 import RSUN

ID = 'C13'
TITLE = 'grid restriction'
CASES = {'quick': 450, 'thorough': 24000}
SHARDS = {'quick': 1, 'thorough': 16}
RULE = ('Generated: world with 1-3 molecules whose native grids are the same, nested (every 2nd/3rd point), '
        'offset by a fraction of the spacing, or independent (own start/step/length); transmission or '
        'emission; a contiguous sub-range of the model native grid; an observation of 2-6 bins whose '
        'mid-point widths are >= 4 native spacings; and (T,P) for the opacity-level clauses in cross-section '
        'and k-table layout.  Non-trivial = >=2 molecules on different grids and a requested range strictly '
        'inside the native range; distinct by case hash.'
        ' On each opacity object an own-points request is followed by a request with the same size and end points but other interior points; observations include constant-resolving-power grids spanning more than a factor two.')
ASSUMPTIONS = [
    'values compared at wavenumbers matched exactly; rtol 1e-9 plus the licensed cut-off slack (transmission: 2 sum (Rp+z) dz e^-10 / Rs^2 absolute on the depth; emission: e^-10 relative), because the saturation test takes a minimum over the wavenumbers being computed',
    'binning clause judged only for native spacing <= 1/4 of the widest mid-point bin (narrower than the statement, see DESIGN.md); FluxBinner with implied (mid-point) widths',
    'own-grid clause is bit-equality; foreign points must lie between the two neighbouring native values (equal to the end value outside the native range)',
]
RULE = RULE + ' ' + 'Also: observation layouts with unequal spacing of the bin centres (widest implied bin at the low or the high end). Round 10: two windows of the same length at the two ends of the native grid are evaluated one after the other on the same model (window-sequence); observations with unequal gaps are also binned with explicit widths, the end bins as wide as the widest implied bin (obs:explicit-widths).'
REQUIRED = {'obs:explicit-widths': 0.05, 'window-sequence': 0.5, 'full-run-broke-off-then-repeated': 0.3, 'obs:widest-low': 0.02, 'obs:widest-high': 0.02, 'opacity:ktables': 0.15, 'grids:tie-for-largest': 0.04, 'obs:constant-R-wide': 0.08, 'grids:multi': 0.35, 'grids:single': 0.15, 'family:emission': 0.2, 'family:transmission': 0.2}


@st.composite
def _case(draw):
    family = draw(st.sampled_from(['transmission', 'emission']))
    n0 = draw(S.ints(12, 40))
    kinds = draw(st.lists(st.sampled_from(['nested2', 'warped-same-ends', 'near-same-spacing', 'offset', 'offset-same-size', 'own', 'same', 'nested3']), min_size=3, max_size=3))
    own = [[draw(st.floats(-0.2, 0.5)), draw(st.floats(0.6, 2.5)), draw(st.floats(0.3, 0.9))] for _ in range(3)]
    i0 = draw(S.ints(0, n0 - 3))
    i1 = draw(S.ints(i0 + 2, n0 - 1))
    nb = draw(S.ints(2, 6))
    obs = [draw(st.floats(0.02, 0.98)), draw(st.one_of(st.floats(0.45, 0.9), st.floats(0.1, 0.9)))]
    tp = [draw(st.floats(0.0, 1.0)), draw(st.floats(0.0, 1.0))]
    # mostly tables in the regime where every molecule shows in the spectrum: one saturating molecule hides what happens to
    # the others, a transparent one shows nothing
    w = draw(S.world(layers=(2, 16), nwn=(n0, n0), max_active=3, extras=('CIA', 'Rayleigh'),
                     mags=['mixed', 'mixed', 'mixed', 'transparent', 'mixed', 'saturated', 'mixed']))
    w['ktables'] = draw(st.sampled_from([False, True, False]))
    if w['ktables'] and draw(st.booleans()):
        kinds = ['warped-same-ends', 'warped-same-ends', 'warped-same-ends']            # aim correlated-k worlds at look-alike grids
    if obs[1] > 0.4:
        # constant-resolving-power observations need a native grid spanning well over a factor two in wavenumber
        w['wn0'] = min(w['wn0'], w['dwn'] * n0 / 4.0)
    return {'world': w, 'family': family, 'kinds': kinds, 'own': own, 'sub': [i0, i1], 'nbins': nb, 'obs': obs,
            'tp': tp, 'ngauss': draw(S.ints(1, 4)),
            # bin centres whose spacing shrinks towards high wavenumbers (a broad band next to fine bins), or grows
            'obs_layout': draw(S.pick(['auto', 'widest-low', 'auto', 'widest-high', 'auto']))}


def strategy(tier):
    return _case()


def grids_for(case):
    w = case['world']
    n0 = w['nwn']
    base = w['wn0'] + w['dwn'] * np.arange(n0)
    out = {}
    tabbed = [g for g in w['gases'] if g['table'] is not None]
    for i, g in enumerate(tabbed):
        kind = 'same' if i == 0 else case['kinds'][i % 3]
        if kind == 'nested2':
            grid = base[::2]
        elif kind == 'nested3':
            grid = base[1::3]
        elif kind == 'offset':
            grid = (base + 0.37 * w['dwn'])[:-1]
        elif kind == 'warped-same-ends':
            # as many points and the same end points as the first molecule's grid, other interior spacing
            t_ = (base - base[0]) / (base[-1] - base[0])
            grid = base[0] + (base[-1] - base[0]) * (0.45 * t_ + 0.55 * t_ ** 2)
            grid[0], grid[-1] = base[0], base[-1]
        elif kind == 'near-same-spacing':
            # slightly finer than the first molecule's grid and shifted: a requested sub-range often holds exactly as many
            # of these points as requested points, at other wavenumbers
            grid = base[0] - 0.4 * w['dwn'] + 0.96 * w['dwn'] * np.arange(n0 + 2)
        elif kind == 'offset-same-size':
            grid = base + 0.37 * w['dwn']           # as many points as the first molecule's grid: a tie for the largest
        elif kind == 'own':
            a, sc, fr = case['own'][i % 3]
            start = base[0] + a * (base[-1] - base[0])
            step = w['dwn'] * sc
            n = max(3, min(n0 - 1, int(fr * n0)))
            grid = start + step * np.arange(n)
        else:
            grid = base
        out[g['mol']] = (kind, np.asarray(grid, dtype=float))
    return base, out


def check(case):
    from taurex.binning import FluxBinner
    out = Outcome()
    w = case['world']
    family = case['family']
    out.cls('family:' + family)
    base, grids = grids_for(case)
    multi = any(k != 'same' for k, _ in grids.values())
    out.cls('grids:' + ('multi' if multi else 'single'))
    tag = 'multi-grid' if multi else 'single-grid'
    kw = {'ngauss': case['ngauss']} if family == 'emission' else {}
    try:
        # a third of the worlds run in correlated-k mode (two quadrature points): restriction must not matter there either
        kmode = bool(w.get('ktables'))
        if kmode:
            out.cls('opacity:ktables')
        W = cut(out, 'build-world', synth.build_world, w, ktables=kmode, kweights=[0.35, 0.65] if kmode else None,
                wn_per_mol={m: g for m, (k, g) in grids.items()})
        m = cut(out, 'build-model', synth.make_model, W, family, None, **kw)
        with np.errstate(all='ignore'):
            full = cut(out, 'model', m.model)
    except CutError:
        return out
    native = np.array(full[0], dtype=float, copy=True)
    fspec = np.array(full[1], dtype=float, copy=True)
    out.applies('native-grid')
    largest = max(len(g_) for _, g_ in grids.values())
    if not any(len(g_) == largest and np.array_equal(native, g_) for _, g_ in grids.values()):
        out.fail('native-grid', 'native grid is not the grid of a molecule with most points')
        return out
    if sum(1 for _, g_ in grids.values() if len(g_) == largest) > 1 and multi:
        out.cls('grids:tie-for-largest')
    i0, i1 = case['sub']
    sub = native[i0:i1 + 1].copy()
    inside = i0 > 0 and i1 < len(native) - 1
    if family == 'transmission':
        Rp = w['radius'] * synth.RJUP
        Rs = w['star_R'] * RSUN
        z = np.asarray(m.altitudeProfile, dtype=float)
        dz = np.asarray(m.deltaz, dtype=float)
        aslack = 2.0 * float(np.sum((Rp + z) * dz)) * math.exp(-10.0) / (Rs * Rs)
        rslack = 0.0
    else:
        # the cut-off decision depends on which wavenumbers are computed together: a layer term of at most
        # e^-10 x B(T_layer) may be present in one run and skipped in the other -- an ABSOLUTE amount in units of the
        # hottest layer's blackbody ratio (cold upper layers can make the spectrum itself much smaller)
        Rp = w['radius'] * synth.RJUP
        Rs = w['star_R'] * RSUN
        Tmax = float(np.max(np.asarray(m.temperatureProfile, dtype=float)))
        hot = ref.planck_wn(native, Tmax) / ref.planck_wn(native, w['star_T']) * (Rp / Rs) ** 2
        hot_at = dict(zip(native.tolist(), (math.exp(-10.0) * hot).tolist()))
        aslack, rslack = math.exp(-10.0) * float(np.max(hot)), 0.0

    def same_at_common(label, res):
        g = np.asarray(res[0], dtype=float)
        s = np.asarray(res[1], dtype=float)
        idx = np.searchsorted(native, g)
        if len(g) == 0 or np.any(idx >= len(native)) or not np.array_equal(native[np.minimum(idx, len(native) - 1)], g):
            out.fail(label + '@grid', 'returned wavenumbers are not native points')
            return
        if not np.all(np.isin(sub, g)):
            out.fail(label + '@grid-missing', 'requested points missing from the returned grid')
            return
        at = aslack if family == 'transmission' else np.array([hot_at.get(float(x), aslack) for x in g])
        if not np.all(np.abs(s - fspec[idx]) <= 1e-9 * np.abs(fspec[idx]) + at + 1e-300):
            k = int(np.argmax(np.abs(s - fspec[idx]) / np.maximum(np.abs(fspec[idx]), 1e-300)))
            out.fail('%s@%s,%s' % (label, family, tag),
                     'at %.6g cm-1 (point %d of %d returned): restricted %r full %r (max rel %.2e)'
                     % (g[k], k, len(g), s[k], fspec[idx][k], maxrel(s, fspec[idx])))
    try:
        with np.errstate(all='ignore'):
            out.applies('restricted==full')
            r1 = cut(out, 'model@subrange', m.model, sub, True)
            same_at_common('restricted==full', r1)
            out.applies('uncut==full')
            r2 = cut(out, 'model@cutoff_grid=False', m.model, sub, False)
            if not np.array_equal(np.asarray(r2[0]), native) or not close(r2[1], fspec, rtol=1e-12, atol=0):
                out.fail('uncut==full', 'cutoff_grid=False did not return the full native computation')
            # ---- history: two windows of the same length at the two ends of the native grid, one after the other and the first
            # again (a retrieval on one instrument's range, then on another's, with the same live model): still the full values
            nn_ = len(native)
            if nn_ >= 10:
                out.cls('window-sequence')
                out.applies('window-sequence')
                for nm_, sl_ in (('A', slice(1, 4)), ('B', slice(nn_ - 4, nn_ - 1)), ('A', slice(1, 4))):
                    rw_ = cut(out, 'model@window', m.model, native[sl_].copy(), True)
                    gw_, sw_ = np.asarray(rw_[0], dtype=float), np.asarray(rw_[1], dtype=float)
                    ix_ = np.searchsorted(native, gw_)
                    if len(gw_) == 0 or np.any(ix_ >= nn_) or not np.array_equal(native[np.minimum(ix_, nn_ - 1)], gw_) \
                            or not np.all(np.isin(native[sl_], gw_)):
                        out.fail('window-sequence@grid', 'window %s: returned wavenumbers are not the native points asked for' % nm_)
                        break
                    at_ = aslack if family == 'transmission' else np.array([hot_at.get(float(x), aslack) for x in gw_])
                    if not np.all(np.abs(sw_ - fspec[ix_]) <= 1e-9 * np.abs(fspec[ix_]) + at_ + 1e-300):
                        out.fail('window-sequence@%s,%s' % (family, tag), 'window %s differs from the full run at the same points (max rel %.2e)'
                                 % (nm_, maxrel(sw_, fspec[ix_])))
                        break
            # ---- observation binning ---------------------------------------------------------
            nb = case['nbins']
            spacing = w['dwn']
            span = native[-1] - native[0]
            width = max(4.0 * spacing, case['obs'][1] * span / (nb + 1))
            if width * (nb - 1) < span * 0.9:
                c0 = native[0] + case['obs'][0] * (span - width * (nb - 1))
                centres = c0 + width * np.arange(nb)
                # alternatively constant resolving power: widths grow with wavenumber
                if case['obs'][1] > 0.4 and case.get('obs_layout', 'auto') == 'auto':
                    c_lo = native[0] + 0.3 * case['obs'][0] * span
                    q = 1.0 + max(4.0 * spacing / c_lo, 0.05 + 0.9 * (case['obs'][1] - 0.4))
                    geo = [c_lo]
                    while len(geo) < 8 and geo[-1] * q <= native[-1]:
                        geo.append(geo[-1] * q)
                    if len(geo) >= 3:
                        centres = np.array(geo)
                        nb = len(geo)
                        out.cls('obs:constant-R')
                        if centres[-1] / centres[0] > 2.2:
                            out.cls('obs:constant-R-wide')
                lay = case.get('obs_layout', 'auto')
                if lay != 'auto':
                    # unequal spacing of the centres: the widest implied bin sits at one end of the observation
                    gmin = 2.0 * spacing
                    k_ = 4
                    gaps = gmin * 2.0 ** np.arange(k_ - 1)                       # 2, 4, 8 native spacings
                    if lay == 'widest-low':
                        gaps = gaps[::-1]
                    tot_ = float(gaps.sum())
                    if tot_ < 0.8 * span:
                        c0_ = native[0] + 0.1 * span + case['obs'][0] * (0.8 * span - tot_)
                        centres = c0_ + np.concatenate([[0.0], np.cumsum(gaps)])
                        nb = k_
                        out.cls('obs:' + lay)
                out.cls('binning-judged')
                out.applies('binned-restricted==binned-full')
                b = FluxBinner(centres.copy())
                rb = cut(out, 'model@observation', m.model, centres.copy(), True)
                bb = np.asarray(cut(out, 'bin_model', b.bin_model, rb)[1], dtype=float)
                bf = np.asarray(cut(out, 'bin_model', b.bin_model, (native, fspec, None, None))[1], dtype=float)
                if not close(bb, bf, rtol=1e-9 + rslack, atol=aslack):
                    k = int(np.argmax(np.abs(bb - bf)))
                    out.fail('binned-restricted==binned-full@%s,%s' % (family, tag),
                             'bin %d of %d: %r vs %r (max rel %.2e)' % (k, nb, bb[k], bf[k], maxrel(bb, bf)))
                if lay != 'auto' and nb == 4:
                    # explicit bin widths, as an observation file with a width column gives them: each bin as wide as its
                    # mid-points imply, the two end bins as wide as the widest implied bin (the statement's limit)
                    from vlib.props.c05 import midpoint_widths
                    _, wimp = midpoint_widths(centres)
                    wexp = np.array(wimp, dtype=float, copy=True)
                    wexp[0] = wexp[-1] = float(np.max(wimp))
                    out.cls('obs:explicit-widths')
                    out.applies('binned-restricted==binned-full')
                    b2 = FluxBinner(centres.copy(), wngrid_width=wexp.copy())
                    bb2 = np.asarray(cut(out, 'bin_model', b2.bin_model, rb)[1], dtype=float)
                    bf2 = np.asarray(cut(out, 'bin_model', b2.bin_model, (native, fspec, None, None))[1], dtype=float)
                    if not close(bb2, bf2, rtol=1e-9 + rslack, atol=aslack):
                        k = int(np.argmax(np.abs(bb2 - bf2)))
                        out.fail('binned-restricted==binned-full@%s,%s,explicit-widths' % (family, tag),
                                 'bin %d of %d: %r vs %r (max rel %.2e)' % (k, nb, bb2[k], bf2[k], maxrel(bb2, bf2)))
                # the order in which the requested points are listed is irrelevant
                out.applies('request-order')
                rd = cut(out, 'model@observation-descending', m.model, centres[::-1].copy(), True)
                bd = np.asarray(cut(out, 'bin_model', b.bin_model, rd)[1], dtype=float)
                if not close(bd, bf, rtol=1e-9 + rslack, atol=aslack):
                    k = int(np.argmax(np.abs(bd - bf)))
                    out.fail('request-order@%s' % family, 'descending request: bin %d of %d: %r vs %r (max rel %.2e)'
                             % (k, nb, bd[k], bf[k], maxrel(bd, bf)))
    except CutError:
        pass
    # ---- history: after the restricted runs, a full run that breaks off (an interpolation mode that does not exist is
    # in force; the caller catches the error and puts the mode back), then the full run again on the same model
    try:
        from taurex.cache.ktablecache import KTableCache
        from taurex.cache import OpacityCache as _OC
        cache = KTableCache() if w.get('ktables') else _OC()
        ops_ = [cache[mol] for mol in grids]
        if ops_:
            for op_ in ops_:
                op_.set_interpolation_mode('cubic')
            broke = False
            try:
                with np.errstate(all='ignore'):
                    m.model()
            except Exception:
                broke = True
            for op_ in ops_:
                op_.set_interpolation_mode('linear')
            if broke:
                out.cls('full-run-broke-off-then-repeated')
                out.applies('full-after-broken-run')
                with np.errstate(all='ignore'):
                    r9 = cut(out, 'model@after-broken-run', m.model)
                if not np.array_equal(np.asarray(r9[0]), native) or not close(r9[1], fspec, rtol=1e-12, atol=0):
                    out.fail('full-after-broken-run@' + family, 'the full run after a broken-off one differs from the first full run (max rel %.2e)'
                             % maxrel(r9[1], fspec))
    except CutError:
        pass

    # ---- opacity level -----------------------------------------------------------------------
    from taurex.cache import OpacityCache
    Tq = 150.0 + case['tp'][0] * 2500.0
    Pq = 10.0 ** (-2.0 + case['tp'][1] * 9.0)
    try:
        for mol, (kind, own) in (grids.items() if not w.get('ktables') else []):
            op = OpacityCache()[mol]
            with np.errstate(all='ignore'):
                allv = np.asarray(cut(out, 'opacity', op.opacity, Tq, Pq), dtype=float)
                a, bnd = 1, max(2, len(own) - 2)
                part = np.asarray(cut(out, 'opacity@own-subrange', op.opacity, Tq, Pq, own[a:bnd + 1].copy()), dtype=float)
            out.applies('own-points-unchanged')
            if part.shape != allv[a:bnd + 1].shape or not np.array_equal(part, allv[a:bnd + 1]):
                out.fail('own-points-unchanged@%s' % kind, '%s: values on own points changed' % mol)
            with np.errstate(all='ignore'):
                foreign = np.asarray(cut(out, 'opacity@foreign', op.opacity, Tq, Pq, sub.copy()), dtype=float)
            # sequence on the same object: right after the own-points request, a request with the same number of points
            # and the same end points but other interior points (not native ones) -- still between the neighbours
            g1 = own[a:bnd + 1]
            if len(g1) >= 3:
                t_ = (g1 - g1[0]) / (g1[-1] - g1[0])
                g2 = g1[0] + (g1[-1] - g1[0]) * (0.5 * t_ + 0.5 * t_ ** 2)
                g2[0], g2[-1] = g1[0], g1[-1]
                with np.errstate(all='ignore'):
                    cut(out, 'opacity@own-subrange', op.opacity, Tq, Pq, g1.copy())
                    seq = np.asarray(cut(out, 'opacity@foreign-after-own', op.opacity, Tq, Pq, g2.copy()), dtype=float)
                out.applies('foreign-after-own')
                if seq.shape != g2.shape:
                    out.fail('foreign-after-own@shape', '%s' % (seq.shape,))
                else:
                    for x, v in zip(g2, seq):
                        j = int(np.searchsorted(own, x))
                        if j < len(own) and own[j] == x:
                            lo = hi = allv[j]
                        else:
                            lo, hi = min(allv[j - 1], allv[j]), max(allv[j - 1], allv[j])
                        if not (lo * (1 - 1e-12) - 1e-300 <= v <= hi * (1 + 1e-12) + 1e-300):
                            out.fail('foreign-after-own@%s' % kind, '%s at %.6g: %r outside neighbouring native values [%r, %r]' % (mol, x, v, lo, hi))
                            break
            out.applies('foreign-points-bracketed')
            if foreign.shape != sub.shape:
                out.fail('foreign-points-bracketed@shape', '%s' % (foreign.shape,))
                continue
            for x, v in zip(sub, foreign):
                j = int(np.searchsorted(own, x))
                if j == 0:
                    lo = hi = allv[0]
                elif j >= len(own):
                    lo = hi = allv[-1]
                elif own[j] == x:
                    lo = hi = allv[j]
                else:
                    lo, hi = min(allv[j - 1], allv[j]), max(allv[j - 1], allv[j])
                if not (lo * (1 - 1e-12) - 1e-300 <= v <= hi * (1 + 1e-12) + 1e-300):
                    out.fail('foreign-points-bracketed@%s' % kind,
                             '%s at %.6g: %r outside neighbouring native values [%r, %r]' % (mol, x, v, lo, hi))
                    break
        # k-table layout: same clauses on a 2-point k-table built from the first molecule's table
        mol0, (kind0, own0) = list(grids.items())[0][0], list(grids.values())[-1]
        mol0 = list(grids.keys())[-1]
        Tg, Pg, tab, _ = W.tables[mol0]
        kt = synth.SynthKTable(mol0, own0, Tg, Pg, np.stack([tab, 3.0 * tab], axis=-1), [0.4, 0.6])
        with np.errstate(all='ignore'):
            kall = np.asarray(cut(out, 'ktable-opacity', kt.opacity, Tq, Pq), dtype=float)
            kown = np.asarray(cut(out, 'ktable-opacity@own-subrange', kt.opacity, Tq, Pq, own0[1:-1].copy()), dtype=float)
            kfor = np.asarray(cut(out, 'ktable-opacity@foreign', kt.opacity, Tq, Pq, sub.copy()), dtype=float)
        out.applies('ktable-own-points-unchanged')
        if kown.shape != kall[1:-1].shape or not np.array_equal(kown, kall[1:-1]):
            out.fail('ktable-own-points-unchanged', 'k-table values on own points changed')
        out.applies('ktable-foreign-points-bracketed')
        if kfor.shape != (len(sub), 2):
            out.fail('ktable-foreign-points-bracketed@shape', '%s' % (kfor.shape,))
        else:
            for x, v in zip(sub, kfor):
                j = int(np.searchsorted(own0, x))
                if j == 0:
                    lo = hi = kall[0]
                elif j >= len(own0):
                    lo = hi = kall[-1]
                elif own0[j] == x:
                    lo = hi = kall[j]
                else:
                    lo, hi = np.minimum(kall[j - 1], kall[j]), np.maximum(kall[j - 1], kall[j])
                if np.any(v < lo * (1 - 1e-12) - 1e-300) or np.any(v > hi * (1 + 1e-12) + 1e-300):
                    out.fail('ktable-foreign-points-bracketed@%s' % kind0, 'at %.6g: %s outside [%s, %s]' % (x, v, lo, hi))
                    break
    except CutError:
        pass
    out.nontrivial = bool(multi and inside)
    return out
