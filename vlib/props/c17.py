"""C17 — observations load independent of row order with aligned columns and units."""
import math
import os
import shutil
import tempfile
import numpy as np
from hypothesis import strategies as st
from vlib import strategies as S

from vlib.runner import Outcome, cut, CutError, close, maxrel
from vlib.props.c05 import overlap_mean, midpoint_widths

ID = 'C17'
TITLE = 'observation loading'
CASES = {'quick': 700, 'thorough': 64000}
SHARDS = {'quick': 1, 'thorough': 16}
RULE = ('Generated: 2-60 rows with distinct wavelengths (0.1-100 um, spacing by drawn ratios), values and errors '
        'that are injective functions of the wavelength plus drawn noise (so alignment is observable), optional '
        'fourth column of widths drawn independently per row, a drawn row permutation, and a source: array, '
        'text file, TauREx HDF5 through TaurexSpectrum and through taurex_hdf5_to_observation.  Non-trivial = '
        'permutation is not the identity and errors/widths are non-uniform; distinct by case hash.'
        ' A fifth of the four-column array/text cases make two rows share a wavelength; the binner created from the observation is re-used on a second native grid with equal count and end points.')
ASSUMPTIONS = [
    'views of the permuted and the sorted input are compared bit for bit (rows are only moved); HDF5 sources convert widths twice (wavenumber -> wavelength -> wavenumber), compared with rtol 1e-12',
    'four-column bin edges are centre +/- width/2 in wavelength, reported as 10000/edge in ascending wavenumber; three-column edges are wavelength mid-points (ends mirrored)',
    'binner alignment judged with the C05 overlap-mean reference on a fine native grid (rtol 1e-9)',
]
RULE = RULE + ' ' + 'Also: rows handed over as an integer array, the binner of an observation with tied rows, a native grid covering only the upper part of the observation.'
REQUIRED = {'binner:partial-coverage': 0.2, 'rows:integer-array': 0.06, 'perm:extremes-at-the-ends': 0.15, 'tied-wavelengths': 0.015, 'source:array': 0.2, 'source:text': 0.1, 'source:hdf5-class': 0.08, 'source:hdf5-func': 0.08,
            'cols:4': 0.3, 'cols:3': 0.05, 'permuted': 0.4}
# coverage-guided extra (thorough tier): pure-Python taurex modules on this property's path, instrumented by atheris
FUZZ = {'include': ['taurex.data.spectrum', 'taurex.binning', 'taurex.util.util', 'taurex.util.hdf5'], 'runs': 20000, 'workers': 4}


@st.composite
def _case(draw):
    src = draw(st.sampled_from(['array', 'text', 'hdf5-class', 'array', 'hdf5-func']))
    n = draw(S.ints(2, 60))
    wl0 = draw(st.floats(0.1, 20.0))
    ratios = draw(st.lists(st.floats(1.002, 1.25), min_size=n - 1, max_size=n - 1))
    noise = draw(st.lists(st.floats(-1.0, 1.0), min_size=n, max_size=n))
    enoise = draw(st.lists(st.floats(0.0, 1.0), min_size=n, max_size=n))
    cols = 4 if src.startswith('hdf5') else draw(st.sampled_from([4, 3, 4]))
    wfac = draw(st.lists(st.floats(0.05, 0.95), min_size=n, max_size=n))
    perm = draw(S.perm(list(range(n))))
    return {'source': src, 'wl0': wl0, 'ratios': ratios, 'noise': noise, 'enoise': enoise, 'cols': cols,
            'wfac': wfac, 'perm': perm, 'uniform': draw(st.sampled_from([False, False, False, True])),
            'perm_kind': draw(st.sampled_from(['random', 'ends-descending', 'random', 'ends-ascending'])),
            # two rows sharing exactly the same wavelength (two instruments reporting the same point)
            'tie': draw(st.sampled_from([None, None, [draw(S.ints(0, 59)), draw(S.ints(0, 59))]])),
            # the rows handed over as an integer array (whole-micron bands, depths and errors in ppm, odd widths)
            'int_rows': draw(S.pick([False, True, False, False, True]))}


def strategy(tier):
    return _case()


def rows_for(case):
    n = len(case['noise'])
    wl = case['wl0'] * np.cumprod([1.0] + list(case['ratios']))
    if wl[-1] > 100.0:
        wl = wl * (100.0 / wl[-1])
    val = 1e-3 * (1.0 + 0.37 * np.arange(n) / n) + 1e-6 * np.array(case['noise'])
    err = 1e-5 * (1.0 + np.arange(n)) * (1.0 + np.array(case['enoise']))
    gaps = np.diff(wl)
    room = np.minimum(np.concatenate([[gaps[0]], gaps]), np.concatenate([gaps, [gaps[-1]]]))
    wid = room * np.array(case['wfac'])
    if case['uniform']:
        err = np.ones(n) * err[0]
        wid = np.ones(n) * wid.min()
    cols = [wl, val, err] + ([wid] if case['cols'] == 4 else [])
    return np.array(cols).T


def load(out, case, rows, tmpdir, tag):
    from taurex.data.spectrum import ArraySpectrum
    from taurex.data.spectrum.observed import ObservedSpectrum
    from taurex.data.spectrum.taurex import TaurexSpectrum
    from taurex.util.hdf5 import taurex_hdf5_to_observation
    src = case['source']
    if src == 'array':
        given = rows.copy()
        if case.get('int_rows') and tag == 'perm':
            given = given.astype(np.int64)          # the same numbers; the sorted twin stays float64
        return cut(out, 'load@array', ArraySpectrum, given)
    if src == 'text':
        fn = os.path.join(tmpdir, tag + '.dat')
        np.savetxt(fn, rows, fmt='%.17e')
        return cut(out, 'load@text', ObservedSpectrum, fn)
    import h5py
    fn = os.path.join(tmpdir, tag + '.h5')
    wn = 10000.0 / rows[:, 0]
    with h5py.File(fn, 'w') as f:
        g = f.create_group('Output').create_group('Spectra')
        g['instrument_wngrid'] = wn
        g['instrument_spectrum'] = rows[:, 1]
        g['instrument_noise'] = rows[:, 2]
        g['instrument_wnwidth'] = rows[:, 3] * wn * wn / 10000.0
        g['instrument_wlgrid'] = rows[:, 0].copy()          # a TauREx output holds the wavelength grid too
    if src == 'hdf5-class':
        return cut(out, 'load@hdf5-class', TaurexSpectrum, fn)
    return cut(out, 'load@hdf5-func', taurex_hdf5_to_observation, fn)


VIEWS = ['wavenumberGrid', 'wavelengthGrid', 'spectrum', 'errorBar', 'binWidths', 'binEdges', 'rawData']


def check(case):
    out = Outcome()
    src = case['source']
    out.cls('source:' + src)
    out.cls('cols:%d' % case['cols'])
    rows = rows_for(case)
    n = rows.shape[0]
    int_rows = bool(case.get('int_rows')) and src == 'array'
    if int_rows:
        out.cls('rows:integer-array')
        wl_i = 3.0 + 4.0 * np.arange(n)
        val_i = 100.0 + np.round(50.0 * np.array(case['noise']))
        err_i = 1.0 + np.round(10.0 * np.array(case['enoise']))
        wid_i = np.where(np.array(case['wfac']) > 0.5, 3.0, 1.0)
        rows = np.array([wl_i, val_i, err_i] + ([wid_i] if case['cols'] == 4 else [])).T
    perm = np.array(case['perm'])
    pk = case.get('perm_kind')
    if pk in ('ends-descending', 'ends-ascending') and n >= 4:
        # the extreme wavelengths stay at the two ends (as in a sorted file), only the interior rows are out of order
        by_wl = np.argsort(rows[:, 0])
        lo_i, hi_i = int(by_wl[0]), int(by_wl[-1])
        interior = [int(i) for i in perm if i not in (lo_i, hi_i)]
        perm = np.array(([hi_i] + interior + [lo_i]) if pk == 'ends-descending' else ([lo_i] + interior + [hi_i]))
        out.cls('perm:extremes-at-the-ends')
    permuted = not np.array_equal(perm, np.arange(n))
    if permuted:
        out.cls('permuted')
    tie = case.get('tie')
    if tie and case['cols'] == 4 and not src.startswith('hdf5') and n >= 3 and tie[0] % n != tie[1] % n:
        # rows are only re-ordered: with a tie the order among the tied rows is free, everything else is not --
        # every row given must still be there, with its own value, error and width
        out.cls('tied-wavelengths')
        rows = rows.copy()
        rows[tie[1] % n, 0] = rows[tie[0] % n, 0]
        tmpdir = tempfile.mkdtemp(prefix='verif_c17_')
        try:
            A = load(out, case, rows[perm], tmpdir, 'perm')
            out.applies('tied-rows-kept')
            wn_t = np.asarray(A.wavenumberGrid, dtype=float)
            got_rows = sorted(zip(np.asarray(A.wavelengthGrid, dtype=float).tolist(), np.asarray(A.spectrum, dtype=float).tolist(),
                                  np.asarray(A.errorBar, dtype=float).tolist()))
            want_rows = sorted(zip(rows[:, 0].tolist(), rows[:, 1].tolist(), rows[:, 2].tolist()))
            if wn_t.shape != (n,) or np.any(np.diff(wn_t) < 0) or got_rows != want_rows:
                out.fail('tied-rows-kept@' + src, '%d rows given, %d kept; the (wavelength, value, error) rows are not those given'
                         % (n, wn_t.size))
            elif np.asarray(A.binWidths).shape != (n,):
                out.fail('tied-rows-kept@widths,' + src, 'widths have shape %s for %d rows' % (np.asarray(A.binWidths).shape, n))
            else:
                # the binner made from this observation has one bin per row, each with its own width (two bins of one
                # centre and different widths: a photometric band over a spectroscopic bin)
                bw = np.asarray(A.binWidths, dtype=float)
                binner = cut(out, 'create_binner', A.create_binner)
                lo_, hi_ = float((wn_t - bw / 2).min()), float((wn_t + bw / 2).max())
                ed = np.linspace(lo_ - 0.02 * (hi_ - lo_), hi_ + 0.02 * (hi_ - lo_), 301)
                nat, nw_ = (ed[:-1] + ed[1:]) / 2, np.diff(ed)
                f_ = 1.0 + np.sin(nat / (hi_ - lo_) * 9.0)
                res = cut(out, 'bindown', binner.bindown, nat.copy(), f_.copy(), grid_width=nw_.copy())
                got = np.asarray(res[1], dtype=float)
                if got.shape != (n,) or not np.array_equal(np.asarray(res[0], dtype=float), wn_t):
                    out.fail('tied-rows-kept@binner,' + src, '%d rows, the binner returns %s values' % (n, got.shape))
                else:
                    gw = np.asarray(res[3], dtype=float) if len(res) > 3 and res[3] is not None else bw
                    pairs_got = sorted(zip(np.asarray(res[0], dtype=float).tolist(), gw.tolist(), np.round(got, 9).tolist()))
                    pairs_want = []
                    for i in range(n):
                        val, _, tot, _, _ = overlap_mean(nat - nw_ / 2, nat + nw_ / 2, f_, wn_t[i] - bw[i] / 2, wn_t[i] + bw[i] / 2)
                        pairs_want.append((float(wn_t[i]), float(bw[i]), float(np.round(val, 9)) if tot > 0 else None))
                    for (a0, a1, a2), (b0, b1, b2) in zip(pairs_got, sorted(pairs_want, key=lambda x: (x[0], x[1]))):
                        if a0 != b0 or not close(a1, b1, rtol=1e-12) or (b2 is not None and not close(a2, b2, rtol=1e-7)):
                            out.fail('tied-rows-kept@binner-values,' + src, 'bin (%r, width %r) gives %r; overlap mean over that bin %r' % (a0, a1, a2, b2))
                            break
        except CutError:
            pass
        finally:
            shutil.rmtree(tmpdir, ignore_errors=True)
        out.nontrivial = True
        return out
    order = np.argsort(rows[:, 0])[::-1]           # wavelength descending = wavenumber ascending
    srt = rows[order]
    tmpdir = tempfile.mkdtemp(prefix='verif_c17_')
    try:
        A = load(out, case, rows[perm], tmpdir, 'perm')
        B = load(out, case, srt, tmpdir, 'sorted')
        views = {}
        for v in VIEWS:
            a = np.asarray(cut(out, 'view@' + v, getattr, A, v), dtype=float)
            b = np.asarray(cut(out, 'view@' + v, getattr, B, v), dtype=float)
            views[v] = a
            out.applies('order-independent')
            if a.shape != b.shape or not np.array_equal(a, b):
                out.fail('order-independent@%s,%s' % (v, src), 'view %s differs between permuted and sorted input' % v)
        wn = views['wavenumberGrid']
        exact = not src.startswith('hdf5')
        rt = 0.0 if exact else 1e-12
        out.applies('wavenumber-grid')
        if wn.shape != (n,) or not np.all(np.diff(wn) > 0) or not close(wn, 10000.0 / srt[:, 0], rtol=1e-15 if exact else 1e-12):
            out.fail('wavenumber-grid@' + src, 'not ascending / not 10000/wavelength')
            return out
        out.applies('aligned-columns')
        if not close(views['spectrum'], srt[:, 1], rtol=rt) or not close(views['errorBar'], srt[:, 2], rtol=rt):
            out.fail('aligned-columns@values,' + src, 'value/error no longer attached to their wavelength')
        lam = srt[:, 0]
        if case['cols'] == 4:
            dl = srt[:, 3]
            out.applies('widths')
            if not close(views['binWidths'], 10000.0 * dl / lam ** 2, rtol=1e-12):
                out.fail('widths@4col,' + src, 'widths are not 10000 dlambda / lambda^2 of their own row (max rel %.2e)'
                         % maxrel(views['binWidths'], 10000.0 * dl / lam ** 2))
            want_edges = np.empty(2 * n)
            want_edges[0::2] = 10000.0 / (lam + dl / 2)
            want_edges[1::2] = 10000.0 / (lam - dl / 2)
            out.applies('edges')
            if views['binEdges'].shape != (2 * n,) or not close(views['binEdges'], want_edges, rtol=1e-12):
                out.fail('edges@4col,' + src, 'bin edges are not centre +/- width/2')
        else:
            e, wdt = midpoint_widths(lam)
            out.applies('widths')
            if not close(views['binWidths'], 10000.0 * wdt / lam ** 2, rtol=1e-12):
                out.fail('widths@3col', 'widths are not the mid-point widths converted at the bin centre')
            out.applies('edges')
            if views['binEdges'].shape != (n + 1,) or not close(views['binEdges'], 10000.0 / e, rtol=1e-12):
                out.fail('edges@3col', 'bin edges are not the wavelength mid-points')
        # ---- the binner created from the observation ---------------------------------------------
        binner = cut(out, 'create_binner', A.create_binner)
        w = views['binWidths']
        lo_all, hi_all = wn - w / 2, wn + w / 2
        span_lo, span_hi = float(lo_all.min()), float(hi_all.max())
        nn = 400
        edges = np.linspace(span_lo - 0.02 * (span_hi - span_lo), span_hi + 0.02 * (span_hi - span_lo), nn + 1)
        nat = (edges[:-1] + edges[1:]) / 2
        nw = np.diff(edges)
        f = 1.0 + np.sin(nat / (span_hi - span_lo) * 9.0) + 0.3 * (nat - nat[0]) / (nat[-1] - nat[0])
        res = cut(out, 'bindown', binner.bindown, nat.copy(), f.copy(), grid_width=nw.copy())
        out.applies('binner-aligned')
        got = np.asarray(res[1], dtype=float)
        if got.shape != (n,) or not np.array_equal(np.asarray(res[0]), wn):
            out.fail('binner-aligned@grid', 'binner grid is not the observation grid')
        else:
            for i in range(n):
                val, _, tot, _, _ = overlap_mean(nat - nw / 2, nat + nw / 2, f, lo_all[i], hi_all[i])
                if tot > 0 and not close(got[i], val, rtol=1e-9):
                    out.fail('binner-aligned@%dcol,%s' % (case['cols'], 'perm' if permuted else 'sorted'),
                             'bin %d [%.6g, %.6g]: %r vs overlap mean %r' % (i, lo_all[i], hi_all[i], got[i], val))
                    break
            # the same binner is then given another native grid with the same number of points and the same end
            # points but other interior spacing, without explicit widths (what bin_model does for every sampled
            # spectrum): element i must again be the overlap mean over bin i
            out.applies('binner-reuse')
            t_ = (nat - nat[0]) / (nat[-1] - nat[0])
            nat2 = nat[0] + (nat[-1] - nat[0]) * (0.35 * t_ + 0.65 * t_ ** 2)
            nat2[0], nat2[-1] = nat[0], nat[-1]
            f2 = 2.0 + np.cos(nat2 / (span_hi - span_lo) * 7.0)
            res1 = cut(out, 'bindown', binner.bindown, nat.copy(), f.copy())      # first grid again, widths implied
            if got.shape == (n,) and not close(np.asarray(res1[1], dtype=float), got, rtol=1e-9, atol=1e-300):
                out.fail('binner-reuse@implied-widths', 'uniform native grid: implied widths give another result than the same widths given')
            res2 = cut(out, 'bindown', binner.bindown, nat2.copy(), f2.copy())
            got2 = np.asarray(res2[1], dtype=float)
            _, nw2 = midpoint_widths(nat2)
            for i in range(n):
                val, _, tot, _, _ = overlap_mean(nat2 - nw2 / 2, nat2 + nw2 / 2, f2, lo_all[i], hi_all[i])
                if tot > 1e-9 * (hi_all[i] - lo_all[i]) and (got2.shape != (n,) or not close(got2[i], val, rtol=1e-9)):
                    out.fail('binner-reuse@%dcol' % case['cols'], 'second native grid, bin %d: %r vs overlap mean %r'
                             % (i, got2[i] if got2.shape == (n,) else got2.shape, val))
                    break
            # a model whose native grid covers only the upper part of the observation (a retrieval against data reaching
            # beyond the opacity tables): every bin the model does cover still gets ITS OWN overlap mean, at its own index
            if n >= 3:
                out.applies('binner-partial-coverage')
                cutw = float(wn[n // 2] - 0.25 * w[n // 2])
                keep = nat > cutw
                if keep.sum() >= 3 and keep.sum() < len(nat):
                    out.cls('binner:partial-coverage')
                    nat3, f3 = nat[keep], f[keep]
                    res3 = cut(out, 'bindown', binner.bindown, nat3.copy(), f3.copy())
                    got3 = np.asarray(res3[1], dtype=float)
                    _, nw3 = midpoint_widths(nat3)
                    for i in range(n):
                        if lo_all[i] < nat3[0] - nw3[0] / 2 or hi_all[i] > nat3[-1] + nw3[-1] / 2:
                            continue                        # not (wholly) covered: no value is prescribed
                        val, _, tot, _, _ = overlap_mean(nat3 - nw3 / 2, nat3 + nw3 / 2, f3, lo_all[i], hi_all[i])
                        if tot > 1e-9 * (hi_all[i] - lo_all[i]) and (got3.shape != (n,) or not close(got3[i], val, rtol=1e-9)):
                            out.fail('binner-partial-coverage@%dcol' % case['cols'], 'native grid starting at %.6g: bin %d [%.6g, %.6g] gives %r, its overlap mean is %r'
                                     % (nat3[0], i, lo_all[i], hi_all[i], got3[i] if got3.shape == (n,) else got3.shape, val))
                            break
    except CutError:
        pass
    finally:
        shutil.rmtree(tmpdir, ignore_errors=True)
    out.nontrivial = bool(permuted and not case['uniform'])
    return out
