"""C20 — correlated-k reduces to cross-sections when the k-distribution is degenerate."""
import copy
import math
import numpy as np
from hypothesis import strategies as st

from vlib.runner import Outcome, cut, CutError, close, maxrel
from vlib import synth, ref, strategies as S

ID = 'C20'
TITLE = 'correlated-k vs cross-sections'
CASES = {'quick': 400, 'thorough': 32000}
SHARDS = {'quick': 1, 'thorough': 16}
RULE = ('Generated: synthetic world (2-30 layers, isothermal or strongly non-isothermal, 1-2 molecules, optional '
        'CIA / Rayleigh), a quadrature of 1-20 positive weights normalised to one, the model family '
        '(transmission / emission with 1-6 Gauss points / direct image) and per-quadrature-point factors: all '
        'equal to one (degenerate k-distribution: the k-table is the cross-section table repeated) or drawn in '
        '[0.01,100] (general clauses).  Non-trivial = non-isothermal, >=3 quadrature points with unequal '
        'weights and an optical depth in (0.05,5) somewhere; distinct by case hash.'
        ' A third of the worlds put the second molecule on a grid with the same end points and count but other interior spacing; a third of the degenerate cases re-load the k-tables with three more quadrature points under the live model.')
ASSUMPTIONS = [
    'k-tables are in-memory KTable subclasses registered through KTableCache.add_opacity; file formats are judged in C14',
    'degenerate case compared with rtol 1e-9, plus the licensed e^-10 relative slack for emission (the cross-section path clamps saturated transmittances, the k path does not)',
    'general case: Jensen bound judged on transmission models; the cross-section run uses the weight-averaged coefficient table (interpolation is linear in the coefficients in linear mode)',
]
RULE = RULE + ' ' + 'Also: the same k-mode model evaluated on two windows of equal length in sequence; the per-layer terms of the emission families in k-mode. Round 9: in half of the cases one parameter (temperature, planet mass or an abundance) is moved alone - the k-mode model is evaluated at the drawn parameters first and then at the new ones, the cross-section model gets the new value before its first evaluation, so every clause compares a k-mode model with a past against a fresh cross-section model. Round 11: half of the two-grid worlds put the second molecule on a grid reaching beyond the first one at both ends (the model grid ends lie strictly between two of its nodes).'
REQUIRED = {'live-update:planet_mass': 0.05, 'live-update:abundance': 0.05, 'live-update:temperature': 0.02, 'refused-quadrature-before-use': 0.1, 'zero-weight-point': 0.15, 'requadrature': 0.08, 'grids:same-ends-other-spacing': 0.06, 'grids:other-spacing-wider-ends': 0.03, 'family:transmission': 0.2, 'family:emission': 0.2, 'degenerate': 0.3, 'general': 0.2, 'profile:noniso': 0.3}


@st.composite
def _case(draw):
    family = draw(st.sampled_from(['emission', 'transmission', 'directimage', 'emission', 'transmission']))
    degenerate = draw(st.sampled_from([True, False, True]))
    ng = draw(S.ints(1, 20))
    wts = draw(st.lists(st.floats(0.01, 1.0), min_size=ng, max_size=ng))
    fac = [1.0] * ng if degenerate else draw(st.lists(st.floats(-2.0, 2.0), min_size=ng, max_size=ng))
    ngauss = draw(S.ints(1, 6))
    warp = draw(st.sampled_from([False, True, False]))
    if warp:
        # two molecules are needed, on grids of at least five points
        w = draw(S.world(layers=(2, 30), nwn=(5, 9), max_active=2, min_active=2, extras=('CIA', 'Rayleigh'), mags=['mixed']))
    else:
        w = draw(S.world(layers=(2, 30), nwn=(1, 8), max_active=2, extras=('CIA', 'Rayleigh'),
                         mags=['mixed', 'mixed', 'saturated', 'transparent']))
    return {'world': w, 'family': family, 'degenerate': degenerate, 'weights': wts, 'logfac': fac,
            'ngauss': ngauss, 'new_path': draw(st.booleans()),
            # second molecule tabulated on a grid with the same end points and number of points but other interior spacing
            'warp': warp, 'zero_weight': draw(st.sampled_from([None, 0, None, 1, 5])),
            # history: the k-tables are re-loaded with another number of quadrature points under the live model
            'requad': draw(st.sampled_from([True, False, False]))}


def strategy(tier):
    return _case()


def warped_grids(w, warp):
    """per-molecule wavenumber grids: with `warp`, every tabulated molecule after the first sits on a grid with the
    same first / last point and the same number of points as the model grid but quadratic interior spacing"""
    n0 = w['nwn']
    base = w['wn0'] + w['dwn'] * np.arange(n0)
    tabbed = [g for g in w['gases'] if g['table'] is not None]
    if not warp or n0 < 4 or len(tabbed) < 2:
        return None
    t_ = (base - base[0]) / (base[-1] - base[0])
    other = base[0] + (base[-1] - base[0]) * (0.45 * t_ + 0.55 * t_ ** 2)
    other[0], other[-1] = base[0], base[-1]
    if warp == 'wider':
        # the second molecule's table reaches beyond the first one's at both ends: the model grid's end points lie strictly
        # between two of its nodes
        other[0], other[-1] = base[0] - 0.37 * w['dwn'], base[-1] + 0.41 * w['dwn']
    return {g['mol']: (base if i == 0 else other) for i, g in enumerate(tabbed)}


def build_k(w, weights, factors, grids=None):
    """world in k-table mode; kcoeff[..., g] = table * factors[g]"""
    from taurex.cache.ktablecache import KTableCache
    W = synth.build_world(w, ktables=True, kweights=weights, wn_per_mol=grids)
    if any(f != 1.0 for f in factors):
        kc = KTableCache()
        for mol, (Tg, Pg, tab, wn) in W.tables.items():
            kt = kc.opacity_dict[mol]
            kt._x = tab[..., None] * np.asarray(factors)[None, None, None, :]
    return W


def run(out, W, family, case, label):
    kw = {}
    if family == 'transmission':
        kw['new_path_method'] = case['new_path']
    else:
        kw['ngauss'] = case['ngauss']
    m = cut(out, label + '-build', synth.make_model, W, family, None, **kw)
    if family != 'transmission' and label == 'k' and (case['ngauss'] + len(case['weights'])) % 2 == 0:
        # a refused setting before the k-mode model is used: a quadrature of zero angles (the caller catches the error)
        try:
            m.set_num_gauss(0)
        except Exception:
            out.cls('refused-quadrature-before-use')
    # ---- history: in a third of the cases ONE parameter is moved alone (cooler, heavier, or a lower abundance: the atmosphere
    # only gets more compact).  The k-mode model is evaluated first at the drawn parameters and then at the new ones (what a
    # retrieval does); the cross-section model gets the new value before its first evaluation.  Every later clause then compares
    # a k-mode model WITH a past against a fresh cross-section model
    u = case['ngauss'] + len(case['weights'])
    # (an isothermal world moves its temperature; the others the planet mass or an abundance)
    kind_u = None if u % 2 == 0 else ('temperature' if 'T' in m.fittingParameters else ('planet_mass', 'abundance')[(u // 2) % 2])
    name = None
    if kind_u:
        cands = {'temperature': ['T', 'T_surface', 'T_top'], 'abundance': list(m.chemistry.activeGases)}.get(kind_u, [kind_u])
        name = next((c_ for c_ in cands if c_ in m.fittingParameters), None)
        old = m.fittingParameters[name][2]() if name is not None else None
        if not (isinstance(old, (float, int, np.floating)) and math.isfinite(old) and old > 0):
            name = None
    fac_u = {'temperature': 0.7, 'planet_mass': 1.4, 'abundance': 0.5}.get(kind_u, 1.0)
    if name is not None and label != 'k':
        m[name] = old * fac_u
    with np.errstate(all='ignore'):
        r = cut(out, label + '-model', m.model)
    if name is not None and label == 'k':
        out.cls('live-update:' + kind_u)
        m[name] = old * fac_u
        with np.errstate(all='ignore'):
            r = cut(out, label + '-model@live-update', m.model)
    return m, r


def check(case):
    out = Outcome()
    w = case['world']
    family = case['family']
    out.cls('family:' + family)
    wts = np.array(case['weights'], dtype=float)
    if case.get('zero_weight') is not None and len(wts) >= 2:
        # a quadrature point of weight exactly zero (anywhere but last) is a legal set of weights summing to one
        wts[case['zero_weight'] % (len(wts) - 1)] = 0.0
        out.cls('zero-weight-point')
    wts = wts / wts.sum()
    fac = 10.0 ** np.array(case['logfac'], dtype=float) if not case['degenerate'] else np.ones(len(wts))
    out.cls('degenerate' if case['degenerate'] else 'general')
    out.cls('ng:%s' % ('1' if len(wts) == 1 else ('2-5' if len(wts) <= 5 else '6-20')))
    try:
        warp_ = case.get('warp')
        if warp_ and len(case['weights']) % 2 == 0:
            warp_ = 'wider'
        grids = warped_grids(w, warp_)
        if grids:
            out.cls('grids:other-spacing-wider-ends' if warp_ == 'wider' else 'grids:same-ends-other-spacing')
        Wk = cut(out, 'build-world@k', build_k, w, wts, fac, grids)
        mk, rk = run(out, Wk, family, case, 'k')
        from vlib.props.c01 import zero_corner_ambiguous
        if zero_corner_ambiguous(Wk, mk):
            out.cls('ambiguous-zero-corner')
            return out
        spec_k = np.array(rk[1], dtype=float, copy=True)
        tau_k = np.array(rk[2], dtype=float, copy=True)
        # the same model object evaluated again (as a sampler does) gives the same spectrum
        out.applies('repeatable')
        with np.errstate(all='ignore'):
            rk2 = cut(out, 'k-model', mk.model)
        if not np.array_equal(np.asarray(rk2[1]), spec_k, equal_nan=True):
            out.fail('repeatable@' + family, 'second k-mode evaluation differs (max rel %.2e)' % maxrel(rk2[1], spec_k))
        T = np.array(mk.temperatureProfile, dtype=float, copy=True)
        hot0 = 0.0
        if family != 'transmission':
            from vlib.props.c01 import RSUN as _RSUN0
            bb0 = ref.planck_wn(Wk.wn, float(T.max()))
            if family == 'emission':
                hot0 = bb0 / ref.planck_wn(Wk.wn, w['star_T']) * (w['radius'] * synth.RJUP / (w['star_R'] * _RSUN0)) ** 2
            else:
                hot0 = bb0 * (w['radius'] * synth.RJUP) ** 2 / (2.0 * (float(mk.star.distance) * 3.08567758e16) ** 2)
        # ---- history: the same k-mode model on two windows of equal length, one after the other (a retrieval on a clipped
        # grid, then on another): the value at a wavenumber does not depend on which window was computed before
        nwin = len(Wk.wn)
        if nwin >= 8 and not grids:
            out.cls('window-sequence')
            out.applies('window-sequence')
            cutoff_slack = (math.exp(-10.0) * hot0) if family != 'transmission' else 0.0
            if family == 'transmission':
                # the licensed early exit looks at the minimum over the wavenumbers computed: a layer saturated on the window
                # but not on the full grid skips later contributions there -- at most e^-10 of each annulus
                from vlib.props.c01 import RSUN as _RS
                z_, dz_ = np.asarray(mk.altitudeProfile, dtype=float), np.asarray(mk.deltaz, dtype=float)
                t_slack = 2.0 * float(np.sum((w['radius'] * synth.RJUP + z_) * dz_)) * math.exp(-10.0) / (w['star_R'] * _RS) ** 2
            for name_, sel in (('A', slice(1, 3)), ('B', slice(nwin - 3, nwin - 1)), ('A', slice(1, 3))):
                with np.errstate(all='ignore'):
                    rw = cut(out, 'k-model@window', mk.model, Wk.wn[sel].copy(), True)
                gw, sw = np.asarray(rw[0], dtype=float), np.asarray(rw[1], dtype=float)
                idx = [int(np.argmin(np.abs(Wk.wn - x))) for x in gw]
                if len(gw) == 0 or not np.array_equal(Wk.wn[idx], gw):
                    out.fail('window-sequence@grid', 'window %s returned wavenumbers not on the native grid' % name_)
                    break
                tol = 1e-9 * np.abs(spec_k[idx]) + (cutoff_slack[idx] if family != 'transmission' else t_slack) + 1e-300
                if not np.all(np.abs(sw - spec_k[idx]) <= tol):
                    out.fail('window-sequence@' + family, 'window %s differs from the full-grid k-mode values (max rel %.2e)' % (name_, maxrel(sw, spec_k[idx])))
                    break
            with np.errstate(all='ignore'):
                cut(out, 'k-model', mk.model)          # back on the full grid: later clauses read the contributions' state
        # cross-section world with the weight-averaged coefficient
        wx = copy.deepcopy(w)
        avg = float(np.sum(wts * fac))
        for g in wx['gases']:
            if g['table'] is not None and g['table']['mag'] != 'zero':
                g['table']['base'] += math.log10(avg)
        # ---- history: other quadrature under the live model (degenerate tables: any weights give the same result)
        if case.get('requad') and case['degenerate']:
            from taurex.cache.ktablecache import KTableCache
            out.cls('requadrature')
            out.applies('requadrature')
            extra = np.array([0.11, 0.23, 0.07])
            w2 = np.concatenate([wts * (1.0 - extra.sum()), extra])
            kc = KTableCache()
            kc.clear_cache()
            for mol, (Tg_, Pg_, tab_, wn_) in Wk.tables.items():
                kc.add_opacity(synth.SynthKTable(mol, wn_, Tg_, Pg_, np.repeat(tab_[..., None], len(w2), axis=-1), w2))
            with np.errstate(all='ignore'):
                rk3 = cut(out, 'k-model@requadrature', mk.model)
            if not np.all(np.abs(np.asarray(rk3[1], dtype=float) - spec_k) <= 1e-9 * np.abs(spec_k) + 1e-12 * hot0 + 1e-300):
                out.fail('requadrature@' + family, 'degenerate tables re-loaded with %d instead of %d points: spectrum changed (max rel %.2e)'
                         % (len(w2), len(wts), maxrel(rk3[1], spec_k)))
        Wx = cut(out, 'build-world@xsec', synth.build_world, wx, wn_per_mol=grids)
        mx, rx = run(out, Wx, family, case, 'xsec')
    except CutError:
        return out
    spec_x = np.asarray(rx[1], dtype=float)
    tau_x = np.asarray(rx[2], dtype=float)
    iso = bool(np.all(T == T[0]))
    out.cls('profile:' + ('iso' if iso else 'noniso'))
    out.applies('shape')
    if spec_k.shape != spec_x.shape or tau_k.shape != tau_x.shape:
        out.fail('shape@' + family, 'k %s / %s  xsec %s / %s' % (spec_k.shape, tau_k.shape, spec_x.shape, tau_x.shape))
        return out
    out.applies('finite')
    if not np.all(np.isfinite(spec_k)):
        out.fail('finite@' + family, 'k-mode spectrum %s' % spec_k[:3])
        return out
    slack = math.exp(-10.0) if family != 'transmission' else 0.0
    # scale of an emission spectrum: the blackbody ratio of the hottest layer.  The cross-section path may skip a
    # layer term of at most e^-10 x B(T_layer) (licensed cut-off; the k path has none), and B(T)(t_above - t_below)
    # cancels relative to B(T) in a nearly transparent layer -- both are absolute in this scale, not relative to a
    # spectrum that cold upper layers can make orders of magnitude smaller
    hot = 0.0
    if family != 'transmission':
        from vlib.props.c01 import RSUN as _RSUN
        Rp_ = w['radius'] * synth.RJUP
        bbh = ref.planck_wn(Wk.wn, float(T.max()))
        if family == 'emission':
            hot = bbh / ref.planck_wn(Wk.wn, w['star_T']) * (Rp_ / (w['star_R'] * _RSUN)) ** 2
        else:
            hot = bbh * Rp_ ** 2 / (2.0 * (float(mk.star.distance) * 3.08567758e16) ** 2)
    if case['degenerate']:
        out.applies('degenerate-equal')
        if not np.all(np.abs(spec_k - spec_x) <= 1e-9 * np.abs(spec_x) + (slack + 1e-12) * hot + 1e-300):
            out.fail('degenerate-equal@%s,%s' % (family, 'iso' if iso else 'noniso'),
                     'k-mode %s cross-section mode %s (max rel %.2e)' % (spec_k[:3], spec_x[:3], maxrel(spec_k, spec_x)))
        if family == 'transmission':
            out.applies('degenerate-transmittance')
            if not close(tau_k, tau_x, rtol=1e-9, atol=1e-12):
                out.fail('degenerate-transmittance', 'layer transmittances differ (max abs %.2e)' % float(np.max(np.abs(tau_k - tau_x))))
    if family != 'transmission':
        # the layer terms the emission families return next to the spectrum (model()[2], what contribution functions are
        # drawn from) are differences of two transmittances, the column above a layer minus the column from the layer up:
        # each lies in [0, 1]; with degenerate tables they are the cross-section run's, up to the licensed cut-off
        # (a transmittance below e^-10 may be reported as zero by either path)
        cut_ = math.exp(-10.0) * (1 + 1e-6)
        out.applies('emission-layer-terms')
        if np.any(tau_k < -cut_) or np.any(tau_k > 1.0 + 1e-12):
            out.fail('emission-layer-terms@%s,unit-interval' % family, 'layer term range [%r, %r]' % (float(tau_k.min()), float(tau_k.max())))
        elif case['degenerate'] and not np.all(np.abs(tau_k - tau_x) <= 1e-9 * np.abs(tau_x) + 2 * cut_):
            out.fail('emission-layer-terms@%s,degenerate' % family, 'layer terms differ from the cross-section run (max abs %.2e)' % float(np.max(np.abs(tau_k - tau_x))))
    if family != 'transmission' and not grids:
        # reference integral generalised to a k-distribution: the transmittance of the column above
        # a level is  e^{-tau_other/mu} * sum_g w_g e^{-tau_g/mu}
        from vlib.props.c01 import absorption_sigma_ref, RSUN
        out.applies('k-emission-integral')
        P = np.asarray(mk.pressureProfile, dtype=float)
        dz = np.asarray(mk.deltaz, dtype=float)
        col = P / (ref.K_BOLTZ * T) * dz
        nl, nw = len(T), len(Wk.wn)
        mol = absorption_sigma_ref(Wk, mk) * col[:, None]            # per layer, factor 1
        other = np.zeros((nl, nw))
        for c in mk.contribution_list:
            if c.name == 'CIA':
                other += np.asarray(c.sigma_xsec, dtype=float) * (col * P / (ref.K_BOLTZ * T))[:, None]
            elif c.name != 'Absorption':
                other += np.asarray(c.sigma_xsec, dtype=float) * col[:, None]
        mus, ws = ref.gauss_legendre_01(case['ngauss'])

        def above(a):
            r = np.zeros((nl + 1, nw))
            for l in range(nl - 1, -1, -1):
                r[l] = r[l + 1] + a[l]
            return r
        am, ao = above(mol), above(other)
        flux = np.zeros(nw)
        with np.errstate(all='ignore'):
            for mu, wq in zip(mus, ws):
                def Ts(l):
                    t = np.zeros(nw)
                    for g in range(len(wts)):
                        t = t + wts[g] * np.exp(-am[l] * fac[g] / mu)
                    return t * np.exp(-ao[l] / mu)
                I = ref.planck_wn(Wk.wn, T[0]) / math.pi * Ts(0)
                for l in range(nl):
                    I = I + ref.planck_wn(Wk.wn, T[l]) / math.pi * (Ts(l + 1) - Ts(l))
                flux = flux + 2.0 * math.pi * I * mu * wq
        Rp = w['radius'] * synth.RJUP
        if family == 'emission':
            want = flux / ref.planck_wn(Wk.wn, w['star_T']) * (Rp / (w['star_R'] * RSUN)) ** 2
        else:
            want = flux * Rp ** 2 / (2.0 * (float(mk.star.distance) * 3.08567758e16) ** 2)
        if not np.all(np.abs(spec_k - want) <= 1e-8 * np.abs(want) + 1e-12 * hot + 1e-300):
            out.fail('k-emission-integral@%s,%s' % (family, 'degenerate' if case['degenerate'] else 'general'),
                     'k-mode %s reference %s (max rel %.2e)' % (spec_k[:3], want[:3], maxrel(spec_k, want)))
    if family == 'transmission':
        out.applies('transmittance-in-unit-interval')
        if np.any(tau_k < 0.0) or np.any(tau_k > 1.0 + 1e-12):
            out.fail('transmittance-in-unit-interval', 'range [%r, %r]' % (float(tau_k.min()), float(tau_k.max())))
        out.applies('jensen')
        # weight-averaged exponential >= exponential of the weight-averaged optical depth
        # layers already saturated in the cross-section run are subject to the licensed
        # early exit there (later contributions skipped) and are not comparable
        sat = np.array([np.max(tau_x[l]) < math.exp(-10.0) * (1 + 1e-6) for l in range(tau_x.shape[0])])
        tk, tx = tau_k[~sat], tau_x[~sat]
        if tk.size and np.any(tk < tx * (1 - 1e-9) - 1e-12):
            l, k = np.unravel_index(int(np.argmin(tk - tx)), tk.shape)
            tau_k, tau_x = tk, tx
            out.fail('jensen', 'layer %d: k-mode transmittance %r below %r from the averaged coefficient' % (l, tau_k[l, k], tau_x[l, k]))
        out.applies('depth-ordering')
        if np.any(spec_k > spec_x * (1 + 1e-9) + 1e-4 * spec_x * float(np.any(sat))):
            out.fail('depth-ordering', 'k-mode depth above the depth from the averaged coefficient')
    # non-triviality from the cross-section run's layer optical depths
    with np.errstate(all='ignore'):
        if family == 'transmission':
            mid = np.any((tau_x > math.exp(-5.0)) & (tau_x < math.exp(-0.05)))
        else:
            mid = np.any((spec_x > 0))
            # vertical optical depth per layer
            dens = np.asarray(mx.densityProfile) * np.asarray(mx.deltaz)
            sig = np.asarray(mx.contribution_list[0].sigma_xsec) * dens[:, None]
            mid = bool(np.any((sig > 0.05) & (sig < 5.0)))
    out.nontrivial = bool((not iso) and len(wts) >= 3 and len(set(np.round(wts, 12))) > 1 and mid)
    return out
