"""Recording / simulating doubles for libraries that are not installed:
mpi4py (barrier-based communicator over threads), pymultinest, pypolychord.
They are inserted in sys.modules by the harness only."""
import contextlib
import functools
import operator
import pickle
import sys
import threading
import types

import numpy as np


# ---------------------------------------------------------------------------
# mpi4py

class SimWorld:
    """N simulated ranks = N threads sharing this world.  Every exchanged value
    goes through pickle, as mpi4py's lower-case object collectives do."""

    def __init__(self, n):
        self.n = n
        self.barrier = threading.Barrier(n)
        self.slots = [None] * n
        self.local = threading.local()
        self.ncollectives = 0

    def comm(self):
        return self.local.comm


class SimComm:
    def __init__(self, world, rank):
        self.world = world
        self.rank = rank

    def Get_rank(self):
        return self.rank

    def Get_size(self):
        return self.world.n

    def _exchange(self, value):
        w = self.world
        w.slots[self.rank] = pickle.dumps(value)
        w.barrier.wait()
        out = [pickle.loads(s) for s in w.slots]
        w.barrier.wait()
        if self.rank == 0:
            w.ncollectives += 1
        return out

    def allgather(self, value):
        return self._exchange(value)

    def gather(self, value, root=0):
        out = self._exchange(value)
        return out if self.rank == root else None

    def allreduce(self, value, op=None):
        vals = self._exchange(value)
        if op != 'SUM':
            raise NotImplementedError(op)
        return functools.reduce(operator.add, vals)

    def bcast(self, value, root=0):
        return self._exchange(value)[root]

    def Bcast(self, buf, root=0):
        vals = self._exchange(np.array(buf, copy=True))
        buf[...] = vals[root]

    def Barrier(self):
        self._exchange(None)

    def Split_type(self, *a, **k):
        return self


class _WorldProxy:
    def __init__(self):
        self._world = None

    def __getattr__(self, name):
        w = object.__getattribute__(self, '_world')
        if w is None:
            raise RuntimeError('no simulated world active')
        return getattr(w.comm(), name)


@contextlib.contextmanager
def simulated_mpi(n):
    """Install a fake mpi4py for n ranks and thread-aware taurex.mpi.get_rank / nprocs.
    Yields run(fn) which executes fn(rank) on n threads and returns the list of
    results (or raises the first exception)."""
    import taurex.mpi as tmpi
    world = SimWorld(n)
    proxy = _WorldProxy()
    proxy._world = world
    mod = types.ModuleType('mpi4py')
    MPI = types.ModuleType('mpi4py.MPI')
    MPI.COMM_WORLD = proxy
    MPI.SUM = 'SUM'
    MPI.COMM_TYPE_SHARED = 0
    mod.MPI = MPI
    saved_mods = {k: sys.modules.get(k) for k in ('mpi4py', 'mpi4py.MPI')}
    saved = (tmpi.get_rank, tmpi.nprocs)
    sys.modules['mpi4py'] = mod
    sys.modules['mpi4py.MPI'] = MPI
    tmpi.get_rank = lambda comm=None: world.comm().Get_rank()
    tmpi.nprocs = lambda: world.n

    def run(fn):
        results = [None] * n
        errors = [None] * n

        def body(r):
            world.local.comm = SimComm(world, r)
            try:
                results[r] = fn(r)
            except threading.BrokenBarrierError as e:
                errors[r] = e
            except BaseException as e:  # noqa
                errors[r] = e
                world.barrier.abort()
        ts = [threading.Thread(target=body, args=(r,)) for r in range(n)]
        for t in ts:
            t.start()
        for t in ts:
            t.join()
        real = [e for e in errors if e is not None and not isinstance(e, threading.BrokenBarrierError)]
        if real:
            raise real[0]
        if any(errors):
            raise errors[[i for i, e in enumerate(errors) if e][0]]
        return results
    try:
        yield run
    finally:
        tmpi.get_rank, tmpi.nprocs = saved
        for k, v in saved_mods.items():
            if v is None:
                sys.modules.pop(k, None)
            else:
                sys.modules[k] = v


# ---------------------------------------------------------------------------
# samplers

class Captured(Exception):
    """raised by the sampler doubles once the callbacks have been recorded"""


class SamplerCapture:
    def __init__(self):
        self.loglike = None
        self.prior = None
        self.ndim = None
        self.kwargs = None
        self.which = None


_STATE = {'cap': None, 'result': None, 'installed': False}


def _finish(which):
    cap = _STATE['cap']
    cap.which = which
    if _STATE['result'] is None:
        raise Captured(which)
    return _STATE['result'](which, cap)


def _install_once():
    """the doubles are process-wide singletons (taurex.optimizer.polychord binds the
    module objects at import time); each use gets a fresh capture object"""
    if _STATE['installed']:
        return
    import nestle
    _STATE['nestle_sample_real'] = nestle.sample

    def nestle_sample(loglikelihood, prior_transform, ndim, **kw):
        cap = _STATE['cap']
        if cap is None:
            return _STATE['nestle_sample_real'](loglikelihood, prior_transform, ndim, **kw)
        cap.loglike, cap.prior, cap.ndim, cap.kwargs = loglikelihood, prior_transform, ndim, kw
        return _finish('nestle')
    _STATE['nestle_sample_double'] = nestle_sample

    pm = types.ModuleType('pymultinest')

    def run(LogLikelihood=None, Prior=None, n_dims=None, **kw):
        cap = _STATE['cap']
        cap.loglike, cap.prior, cap.ndim, cap.kwargs = LogLikelihood, Prior, n_dims, kw
        return _finish('multinest')
    pm.run = run
    pm.Analyzer = None

    pc = types.ModuleType('pypolychord')
    pcs = types.ModuleType('pypolychord.settings')
    pcp = types.ModuleType('pypolychord.priors')

    class PolyChordSettings:
        def __init__(self, ndim, nderived):
            self.nDims, self.nDerived = ndim, nderived
    pcs.PolyChordSettings = PolyChordSettings

    class UniformPrior:
        def __init__(self, a, b):
            self.a, self.b = a, b

        def __call__(self, x):
            return self.a + (self.b - self.a) * x
    pcp.UniformPrior = UniformPrior

    def run_polychord(loglikelihood, nDims, nDerived, settings, prior=None, dumper=None):
        cap = _STATE['cap']
        cap.loglike, cap.prior, cap.ndim = loglikelihood, prior, nDims
        cap.kwargs = {'settings': settings, 'nDerived': nDerived}
        return _finish('polychord')
    pc.run_polychord = run_polychord
    pc.settings = pcs
    pc.priors = pcp
    _STATE['modules'] = {'pymultinest': pm, 'pypolychord': pc, 'pypolychord.settings': pcs, 'pypolychord.priors': pcp}
    _STATE['installed'] = True


@contextlib.contextmanager
def sampler_doubles(result=None):
    """Activate recording doubles for nestle.sample, pymultinest and pypolychord.
    With result=None the doubles raise Captured after recording the callbacks;
    otherwise `result(which, capture)` is called and its return value returned
    (used by C09 to deliver generated samples)."""
    import nestle
    _install_once()
    cap = SamplerCapture()
    _STATE['cap'], _STATE['result'] = cap, result
    nestle.sample = _STATE['nestle_sample_double']
    sys.modules.update(_STATE['modules'])
    try:
        yield cap, _STATE['modules']['pymultinest']
    finally:
        _STATE['cap'], _STATE['result'] = None, None
        nestle.sample = _STATE['nestle_sample_real']
