"""Coverage-guided campaign (atheris / libFuzzer) over a property's own generator and oracle.

The fuzzer's bytes are decoded into a structured case by the property's Hypothesis strategy
(`fuzz_one_input`), so the search is over the same domain as the random search; what changes is the
driver: libFuzzer keeps inputs that reach new branches of the instrumented taurex modules.  The oracle
is the property's `check(case)` -- the same clauses -- evaluated inside the target.  atheris selects what to
instrument by top-level package, so every taurex module imported by the campaign is instrumented except the six
that hold numba kernels (bytecode instrumentation would break their compilation).

Run as a subprocess by the runner (atheris ends the process itself); results go to a JSON file that is
rewritten every few hundred executions and whenever a new violated clause appears.
"""
import importlib
import json
import os
import sys
import time
import traceback


def main(argv):
    pid, outpath, runs, seed = argv[0], argv[1], int(argv[2]), int(argv[3])
    import atheris
    import ast
    # the FUZZ table is read from the module's source so that the taurex modules can be imported (instrumented)
    # BEFORE anything else pulls them in uninstrumented
    src = open(os.path.join(os.path.dirname(os.path.abspath(__file__)), 'props', pid.lower() + '.py')).read()
    spec = None
    for node in ast.parse(src).body:
        if isinstance(node, ast.Assign) and getattr(node.targets[0], 'id', None) == 'FUZZ':
            spec = ast.literal_eval(node.value)
    # modules holding numba-compiled kernels must keep their original bytecode
    numba_modules = ['taurex.contributions.absorption', 'taurex.contributions.cia', 'taurex.contributions.contribution',
                     'taurex.model.emission', 'taurex.util.emission', 'taurex.util.math']
    with atheris.instrument_imports(include=list(spec['include']), exclude=numba_modules, enable_loader_override=False):
        for name in spec['include']:
            importlib.import_module(name)
    mod = importlib.import_module('vlib.props.' + pid.lower())
    from vlib.runner import Collector, canon
    import hypothesis
    from hypothesis import given, settings, HealthCheck
    col = Collector(pid)
    state = {'n': 0, 't0': time.time(), 'last_dump': 0}

    def dump(final=False):
        d = col.to_json()
        d['fuzz'] = {'executions': state['n'], 'wall_s': round(time.time() - state['t0'], 1), 'final': final,
                     'instrumented': list(spec['include']), 'seed': seed}
        tmp = outpath + '.tmp'
        with open(tmp, 'w') as f:
            json.dump(d, f)
        os.replace(tmp, outpath)

    @settings(database=None, deadline=None, suppress_health_check=list(HealthCheck), max_examples=10 ** 9)
    @given(mod.strategy('thorough'))
    def target(case):
        if col.harness_error:
            return
        state['n'] += 1
        before = len(col.viol)
        try:
            out = mod.check(case)
        except Exception:
            col.harness_error = 'check() raised on case %s\n%s' % (canon(case)[:2000], traceback.format_exc())
            dump()
            return
        col.add(case, out)
        if len(col.viol) != before or state['n'] - state['last_dump'] >= 200:
            state['last_dump'] = state['n']
            dump()

    corpus = outpath + '.corpus'
    os.makedirs(corpus, exist_ok=True)
    # starting corpus: byte strings long enough for the strategy to complete a case (an empty corpus makes libFuzzer
    # give up before any structured case is built); pseudo-random, fixed by the campaign seed
    import random
    rng = random.Random(seed)
    for i, n in enumerate((512, 2048, 4096, 8192, 8192, 16384)):
        with open(os.path.join(corpus, 'seed%d' % i), 'wb') as f:
            f.write(bytes(rng.getrandbits(8) for _ in range(n)))
    args = [sys.argv[0], '-runs=%d' % runs, '-seed=%d' % (seed or 1), '-max_len=16384', '-len_control=0', '-print_final_stats=0',
            '-verbosity=0', corpus]
    dump()
    atheris.Setup(args, target.hypothesis.fuzz_one_input)
    try:
        atheris.Fuzz()
    finally:
        dump(final=True)


if __name__ == '__main__':
    here = os.path.dirname(os.path.dirname(os.path.abspath(__file__)))
    sys.path.insert(0, here)
    deps = os.path.join(here, '.deps')
    if os.path.isdir(deps):
        sys.path.append(deps)
    import warnings
    warnings.filterwarnings('ignore')
    import logging
    logging.disable(logging.CRITICAL)
    main(sys.argv[1:])
