"""Synthetic worlds: in-memory opacities, CIA, k-tables, atmospheres.

All data are built from generated values; nothing is read from disk here.
"""
import logging
import numpy as np

logging.disable(logging.CRITICAL)

from taurex.opacity.interpolateopacity import InterpolatingOpacity  # noqa
from taurex.opacity.ktables.ktable import KTable  # noqa
from taurex.cia.cia import CIA  # noqa


class SynthOpacity(InterpolatingOpacity):
    """xsecGrid[P, T, wn] in cm2, pressureGrid in Pa (ascending), T ascending."""

    def __init__(self, name, wn, T, P, xsec, mode='linear'):
        super().__init__('Synth:' + name, interpolation_mode=mode)
        self._name = name
        self._wn = np.asarray(wn, dtype=float)
        self._T = np.asarray(T, dtype=float)
        self._P = np.asarray(P, dtype=float)
        self._x = np.asarray(xsec, dtype=float)
        assert self._x.shape == (len(self._P), len(self._T), len(self._wn))

    @property
    def moleculeName(self):
        return self._name

    @property
    def xsecGrid(self):
        return self._x

    @property
    def wavenumberGrid(self):
        return self._wn

    @property
    def temperatureGrid(self):
        return self._T

    @property
    def pressureGrid(self):
        return self._P

    @property
    def resolution(self):
        return 1.0


class SynthKTable(KTable, InterpolatingOpacity):
    """xsecGrid[P, T, wn, g] in cm2."""

    def __init__(self, name, wn, T, P, kcoeff, weights, mode='linear'):
        InterpolatingOpacity.__init__(self, 'SynthK:' + name, interpolation_mode=mode)
        self._name = name
        self._wn = np.asarray(wn, dtype=float)
        self._T = np.asarray(T, dtype=float)
        self._P = np.asarray(P, dtype=float)
        self._x = np.asarray(kcoeff, dtype=float)
        self._w = np.asarray(weights, dtype=float)
        assert self._x.shape == (len(self._P), len(self._T), len(self._wn), len(self._w))

    @property
    def moleculeName(self):
        return self._name

    @property
    def xsecGrid(self):
        return self._x

    @property
    def wavenumberGrid(self):
        return self._wn

    @property
    def temperatureGrid(self):
        return self._T

    @property
    def pressureGrid(self):
        return self._P

    @property
    def weights(self):
        return self._w

    @property
    def resolution(self):
        return 1.0


class SynthCIA(CIA):
    """cia(T, wn): table[T, wn] (cm5), linear in T (clamped by CIA base)."""

    def __init__(self, pair, wn, T, table):
        super().__init__('SynthCIA', pair)
        self._wn = np.asarray(wn, dtype=float)
        self._T = np.asarray(T, dtype=float)
        self._tab = np.asarray(table, dtype=float)

    @property
    def wavenumberGrid(self):
        return self._wn

    @property
    def temperatureGrid(self):
        return self._T

    def compute_cia(self, temperature):
        return self.interp_table(temperature)

    def interp_table(self, T):
        Tg = self._T
        if T <= Tg[0]:
            return self._tab[0].copy()
        if T >= Tg[-1]:
            return self._tab[-1].copy()
        i = int(np.searchsorted(Tg, T, side='right') - 1)
        f = (T - Tg[i]) / (Tg[i + 1] - Tg[i])
        return self._tab[i] * (1 - f) + self._tab[i + 1] * f


def reset_world():
    """Clear every process-wide singleton TauREx keeps."""
    from taurex.cache import OpacityCache, CIACache, GlobalCache
    from taurex.cache.ktablecache import KTableCache
    g = GlobalCache()
    g.variable_dict = {}
    oc = OpacityCache()
    oc.opacity_dict = {}
    oc._opacity_path = None
    oc._force_active = []
    cc = CIACache()
    cc.cia_dict = {}
    kc = KTableCache()
    kc.opacity_dict = {}
    kc._force_active = []
