"""Synthetic worlds: in-memory opacities, CIA, k-tables, atmospheres.

All data are built from generated values; nothing is read from disk here.
"""
import logging
import math
import numpy as np

logging.disable(logging.CRITICAL)

from taurex.opacity.interpolateopacity import InterpolatingOpacity  # noqa
from taurex.opacity.ktables.ktable import KTable  # noqa
from taurex.cia.cia import CIA  # noqa


def _axis(a):
    """an axis as handed over: an integer array stays an integer array (loaders keep the dtype of the file)"""
    a = np.asarray(a)
    return a if a.dtype.kind == 'i' else np.asarray(a, dtype=float)


def _as_stored(a, integer):
    """the axis in the dtype a file holding whole numbers would give"""
    a = np.asarray(a, dtype=float)
    return a.astype(np.int64) if integer and np.all(a == np.round(a)) else a


class SynthOpacity(InterpolatingOpacity):
    """xsecGrid[P, T, wn] in cm2, pressureGrid in Pa (ascending), T ascending."""

    def __init__(self, name, wn, T, P, xsec, mode='linear'):
        super().__init__('Synth:' + name, interpolation_mode=mode)
        self._name = name
        self._wn = _axis(wn)
        self._T = _axis(T)
        self._P = np.asarray(P, dtype=float)
        self._x = np.asarray(xsec, dtype=float)
        assert self._x.shape == (len(self._P), len(self._T), len(self._wn))

    @property
    def moleculeName(self):
        return self._name

    @property
    def xsecGrid(self):
        return self._x

    @property
    def wavenumberGrid(self):
        return self._wn

    @property
    def temperatureGrid(self):
        return self._T

    @property
    def pressureGrid(self):
        return self._P

    @property
    def resolution(self):
        return 1.0


class SynthKTable(KTable, InterpolatingOpacity):
    """xsecGrid[P, T, wn, g] in cm2."""

    def __init__(self, name, wn, T, P, kcoeff, weights, mode='linear'):
        InterpolatingOpacity.__init__(self, 'SynthK:' + name, interpolation_mode=mode)
        self._name = name
        self._wn = _axis(wn)
        self._T = _axis(T)
        self._P = np.asarray(P, dtype=float)
        self._x = np.asarray(kcoeff, dtype=float)
        self._w = np.asarray(weights, dtype=float)
        assert self._x.shape == (len(self._P), len(self._T), len(self._wn), len(self._w))

    @property
    def moleculeName(self):
        return self._name

    @property
    def xsecGrid(self):
        return self._x

    @property
    def wavenumberGrid(self):
        return self._wn

    @property
    def temperatureGrid(self):
        return self._T

    @property
    def pressureGrid(self):
        return self._P

    @property
    def weights(self):
        return self._w

    @property
    def resolution(self):
        return 1.0


class SynthCIA(CIA):
    """cia(T, wn): table[T, wn] (cm5), linear in T (clamped by CIA base)."""

    def __init__(self, pair, wn, T, table):
        super().__init__('SynthCIA', pair)
        self._wn = np.asarray(wn, dtype=float)
        self._T = np.asarray(T, dtype=float)
        self._tab = np.asarray(table, dtype=float)

    @property
    def wavenumberGrid(self):
        return self._wn

    @property
    def temperatureGrid(self):
        return self._T

    def compute_cia(self, temperature):
        return self.interp_table(temperature)

    def interp_table(self, T):
        Tg = self._T
        if T <= Tg[0]:
            return self._tab[0].copy()
        if T >= Tg[-1]:
            return self._tab[-1].copy()
        i = int(np.searchsorted(Tg, T, side='right') - 1)
        f = (T - Tg[i]) / (Tg[i + 1] - Tg[i])
        return self._tab[i] * (1 - f) + self._tab[i + 1] * f


_STORED_CHEM = {}


def stored_array_chemistry():
    """TaurexChemistry whose mixing-ratio properties hand out the arrays it keeps (what a user or plug-in chemistry that
    stores its profiles typically does) instead of fresh copies: numerically identical to the built-in, but whoever
    writes into what it was handed now writes into the chemistry.  The kept arrays are renewed whenever the underlying
    profiles change (a parameter was set, the chemistry re-initialised)."""
    if 'cls' in _STORED_CHEM:
        return _STORED_CHEM['cls']
    from taurex.data.profiles.chemistry import TaurexChemistry

    class StoredArrayChemistry(TaurexChemistry):
        def _kept(self, key, fresh):
            if fresh is None:
                return None
            store = self.__dict__.setdefault('_verif_kept', {})
            fresh = np.asarray(fresh)
            ent = store.get(key)
            if ent is None or ent[0].shape != fresh.shape or not np.array_equal(ent[0], fresh, equal_nan=True):
                ent = (fresh.copy(), fresh.copy())
                store[key] = ent
            return ent[1]

        @property
        def activeGasMixProfile(self):
            return self._kept('active', TaurexChemistry.activeGasMixProfile.fget(self))

        @property
        def inactiveGasMixProfile(self):
            return self._kept('inactive', TaurexChemistry.inactiveGasMixProfile.fget(self))
    _STORED_CHEM['cls'] = StoredArrayChemistry
    return StoredArrayChemistry


def reset_world():
    """Clear every process-wide singleton TauREx keeps."""
    from taurex.cache import OpacityCache, CIACache, GlobalCache
    from taurex.cache.ktablecache import KTableCache
    g = GlobalCache()
    g.variable_dict = {}
    oc = OpacityCache()
    oc.opacity_dict = {}
    oc._opacity_path = None
    oc._force_active = []
    cc = CIACache()
    cc.cia_dict = {}
    kc = KTableCache()
    kc.opacity_dict = {}
    kc._force_active = []


# ---------------------------------------------------------------------------
# worlds

G_NEWTON = 6.6743e-11        # CODATA 2018
RJUP = 71492000.0            # IAU 2015 nominal equatorial radius
MJUP = 1.2668653e17 / G_NEWTON   # IAU nominal GM_J / G


class World:
    pass


def table_arrays(spec, nwn):
    """(Tgrid, Pgrid[Pa], xsec[P,T,wn] in cm2) from a strategies.table spec"""
    Tg = np.cumsum([spec['T0']] + list(spec['dT']))
    lP = np.cumsum([spec['lP0']] + list(spec['dlP']))
    Pg = 10.0 ** lP
    shape = (len(Pg), len(Tg), nwn)
    if spec['mag'] == 'zero':
        tab = np.zeros(shape)
    else:
        dpt = np.array(spec['dpt'], dtype=float).reshape(len(Pg), len(Tg))
        dw = np.array(spec['dw'], dtype=float)[:nwn]
        if len(dw) < nwn:
            dw = np.resize(dw, nwn)
        if spec.get('ripple'):
            iw = np.arange(nwn)
            dw = dw + 0.21 * np.sin(1.7 * iw + 0.3) + 0.13 * ((iw * 7) % 5) / 5.0
            ip, it = np.meshgrid(np.arange(len(Pg)), np.arange(len(Tg)), indexing='ij')
            dpt = dpt + 0.17 * np.cos(2.3 * ip + 1.1 * it) + 0.11 * ((ip * 3 + it * 5) % 4) / 4.0
        tab = 10.0 ** (spec['base'] + dpt[:, :, None] + dw[None, None, :])
    return Tg, Pg, tab


def layer_temperatures(tspec, nlayers):
    if tspec['kind'] == 'iso':
        return np.ones(nlayers) * tspec['T']
    ctrl = np.array(tspec['T'], dtype=float)
    x = np.linspace(0.0, 1.0, nlayers)
    xc = np.linspace(0.0, 1.0, len(ctrl))
    return np.interp(x, xc, ctrl)


def build_world(w, ktables=False, kweights=None, mode='linear', wn_per_mol=None):
    """Create every component of a synthetic world from the case dict `w` and
    register its opacities in the (freshly reset) caches."""
    from taurex.cache import OpacityCache, CIACache, GlobalCache
    from taurex.cache.ktablecache import KTableCache
    from taurex.data import Planet
    from taurex.data.stellar import BlackbodyStar
    from taurex.data.profiles.pressure import SimplePressureProfile
    from taurex.data.profiles.temperature import Isothermal
    from taurex.data.profiles.temperature.temparray import TemperatureArray
    from taurex.data.profiles.chemistry import TaurexChemistry, ConstantGas
    reset_world()
    W = World()
    W.case = w
    nw = w['nwn']
    W.wn = w['wn0'] + w['dwn'] * np.arange(nw)
    W.tables = {}
    if ktables:
        GlobalCache()['opacity_method'] = 'ktables'
    for i, g in enumerate(w['gases']):
        if g['table'] is None:
            continue
        wn = W.wn if not wn_per_mol else wn_per_mol[g['mol']]
        Tg, Pg, tab = table_arrays(g['table'], len(wn))
        W.tables[g['mol']] = (Tg, Pg, tab, wn)
        form = w.get('form', 'plain')
        wn_s = _as_stored(wn, form in ('int-wn', 'int-both'))
        Tg_s = _as_stored(Tg, form in ('int-T', 'int-both'))
        if ktables:
            kw = np.asarray(kweights, dtype=float)
            ktab = np.repeat(tab[..., None], len(kw), axis=-1)
            KTableCache().add_opacity(SynthKTable(g['mol'], wn_s, Tg_s, Pg, ktab, kw, mode=mode))
        else:
            OpacityCache().add_opacity(SynthOpacity(g['mol'], wn_s, Tg_s, Pg, tab, mode=mode))
    radius_m = w['radius'] * RJUP
    W.Tlayers = layer_temperatures(w['temp'], w['nlayers'])
    # keep the atmosphere gravitationally bound: if the isothermal estimate of its
    # extent (H at the hottest layer with mu = 2 amu, times ln(10) per decade) exceeds
    # 0.4 planet radii the surface gravity is raised to the value that bounds it
    g = 10.0 ** w['logg']
    g_needed = 1.380649e-23 * float(np.max(W.Tlayers)) / (2.0 * 1.6605390666e-27) * \
        math.log(10.0) * w['decades'] / (0.4 * radius_m)
    W.g_surface = max(g, g_needed)
    W.gravity_raised = g_needed > g
    mass_kg = W.g_surface * radius_m ** 2 / G_NEWTON
    W.planet = Planet(planet_mass=mass_kg / MJUP, planet_radius=w['radius'])
    W.star = BlackbodyStar(temperature=w['star_T'], radius=w['star_R'])
    pmax = 10.0 ** w['lpmax']
    pmin = 10.0 ** (w['lpmax'] - w['decades'])
    W.pmin, W.pmax = pmin, pmax
    W.pressure = SimplePressureProfile(nlayers=w['nlayers'], atm_min_pressure=pmin, atm_max_pressure=pmax)
    if w['temp']['kind'] == 'iso':
        W.temperature = Isothermal(T=w['temp']['T'])
    else:
        W.temperature = TemperatureArray(tp_array=W.Tlayers.copy())
    fill = list(w['fill'])
    ratio = list(w['ratio'])[:len(fill) - 1]
    W.chemistry = TaurexChemistry(fill_gases=fill, ratio=ratio if len(fill) > 1 else 0.0)
    for g in w['gases']:
        if g['mol'] in fill:
            continue
        if g.get('zero'):
            W.chemistry.addGas(ConstantGas(g['mol'], mix_ratio=0.0))
        elif g.get('logtop') is None:
            W.chemistry.addGas(ConstantGas(g['mol'], mix_ratio=10.0 ** g['logmix']))
        else:
            from taurex.data.profiles.chemistry.gas.arraygas import ArrayGas
            top = min(10.0 ** (g['logmix'] + g['logtop']), 0.2)
            W.chemistry.addGas(ArrayGas(g['mol'], mix_ratio_array=[10.0 ** g['logmix'], top]))
    W.cia_pair = None
    if w.get('cia') is not None and 'CIA' in w.get('extras', []):
        pair = '%s-%s' % (fill[0], fill[1] if len(fill) > 1 else fill[0])
        Tg, _, tab = table_arrays(w['cia'], nw)
        # collision-induced coefficients are ~1e-30 smaller than molecular cross-sections
        W.cia_table = (Tg, tab[0] * 1e-30)
        CIACache().add_cia(SynthCIA(pair, W.wn, Tg, W.cia_table[1]))
        W.cia_pair = pair
    return W


def make_contributions(W, names=None):
    from taurex.contributions import AbsorptionContribution, CIAContribution, \
        RayleighContribution, SimpleCloudsContribution
    w = W.case
    names = names if names is not None else (['Absorption'] + list(w.get('extras', [])))
    out = []
    for n in names:
        if n == 'Absorption':
            out.append(AbsorptionContribution())
        elif n == 'CIA':
            if W.cia_pair is not None:
                out.append(CIAContribution(cia_pairs=[W.cia_pair]))
        elif n == 'Rayleigh':
            out.append(RayleighContribution())
        elif n == 'SimpleClouds':
            lp = np.log10(W.pmin) + (0.5 + w['lpcloud'] / 2.0) * (np.log10(W.pmax) - np.log10(W.pmin))
            out.append(SimpleCloudsContribution(clouds_pressure=10.0 ** lp))
        else:
            raise ValueError(n)
    return out


def make_model(W, kind='transmission', contribs=None, **kw):
    from taurex.model import TransmissionModel, EmissionModel, DirectImageModel
    klass = {'transmission': TransmissionModel, 'emission': EmissionModel, 'directimage': DirectImageModel}[kind]
    m = klass(planet=W.planet, star=W.star, pressure_profile=W.pressure,
              temperature_profile=W.temperature, chemistry=W.chemistry, **kw)
    for c in (contribs if contribs is not None else make_contributions(W)):
        m.add_contribution(c)
    m.build()
    return m
